package main

import (
	"context"
	"fmt"
	"go/types"
	"os"
	"os/exec"
	"sort"
	"strings"
	"sync"
	"time"

	"golang.org/x/tools/go/ssa"
)

// FuncResult: everything generated for one function under contract.
type FuncResult struct {
	Fn          string
	Key         string
	Obls        []*Obligation
	Assumptions []string
	Abstracted  []string
	Notes       []string
	Err         string
	HasContract bool
	AbstractCon bool // the function's contract is assumed (abstractbody): its postconditions are not obligations
	Refine      bool
	GenTimeS    float64
	ScriptLines int
}

// genFunc generates the obligations of fn against its contract (nil contract: panic sweep only).
func genFunc(p *Program, w *World, fn *ssa.Function, con *Contract, excepts map[string]string) (res *FuncResult) {
	return genFuncK(p, w, fn, con, excepts, 0)
}

// genFuncK: boundK > 0 generates the bounded instance used only to search for replayable inputs.
func genFuncK(p *Program, w *World, fn *ssa.Function, con *Contract, excepts map[string]string, boundK int) (res *FuncResult) {
	return genFuncR(p, w, fn, con, excepts, boundK, nil)
}

// genRefine: the method fn of an implementing type is verified against the interface method's
// contract, the interface's ghost variable being read off the object's concrete state.
func genRefine(p *Program, w *World, ref *Refinement) *FuncResult {
	return genFuncR(p, w, ref.Fn, ref.Con, nil, 0, ref)
}

func genFuncR(p *Program, w *World, fn *ssa.Function, con *Contract, excepts map[string]string, boundK int, ref *Refinement) (res *FuncResult) {
	start := time.Now()
	e := newExec(p, w)
	e.boundK = boundK
	e.FnName = displayName(fn)
	if w.ActiveVariant != "" {
		e.FnName += "@" + w.ActiveVariant
	}
	res = &FuncResult{Fn: e.FnName, Key: funcKey(fn), HasContract: con != nil, Refine: ref != nil, AbstractCon: con != nil && con.Abstract && ref == nil}
	defer func() {
		res.GenTimeS = time.Since(start).Seconds()
		if r := recover(); r != nil {
			switch x := r.(type) {
			case execAbort:
				res.Err = "ENGINE-LIMIT: " + x.msg
			case elabError:
				res.Err = "CONTRACT-ERROR: " + x.msg
			default:
				panic(r)
			}
		}
		res.Obls = e.Obls
		for a := range e.Assumptions {
			res.Assumptions = append(res.Assumptions, a)
		}
		sort.Strings(res.Assumptions)
		res.Abstracted = e.Abstracted
		res.Notes = e.notes
		res.ScriptLines = len(e.S.lines)
	}()
	e.S.declare(topVar, "Int")
	e.S.assume("(>= $top 0)")
	st0 := &State{Reach: "true", Vars: map[string]string{}}
	var args []Val
	for _, prm := range fn.Params {
		ty := tyOfGo(prm.Type())
		e.ensureSortDecl(ty)
		name := "p." + prm.Name()
		if e.S.declared[name] {
			name = e.S.freshName(name)
		}
		v := Val{T: e.S.declare(name, ty.Sort()), Ty: ty}
		if inv := e.typeInv(st0, v); inv != "true" {
			e.S.assume(inv)
		}
		args = append(args, v)
	}
	var fvs []Val
	for _, fv := range fn.FreeVars {
		fvs = append(fvs, e.freshVal(st0, "fv."+fv.Name(), fv.Type()))
	}
	e.entry = st0
	e.curTop = fn
	e.topArgs = args
	// entry environment
	env := &Env{E: e, Vars: map[string]Val{}, St: st0, Old: st0, Where: "contract of " + e.FnName}
	for i, prm := range fn.Params {
		env.Vars[prm.Name()] = args[i]
	}
	if fn.Pkg != nil {
		env.Pkg = fn.Pkg.Pkg.Path()
	}
	e.top = topFrame{active: true, entryTop: topVar, everything: con == nil}
	postKind := "post"
	if ref != nil {
		// refinement: the interface contract's parameters are the method's, its receiver "self" is
		// the interface value holding the receiver object; the ghost view is abstracted from it
		postKind = "refine"
		self := e.makeIface(args[0], fn.Params[0].Type())
		if ref.Impl.Ghost != "" {
			g := w.Ghosts[ref.Impl.Ghost]
			if g == nil {
				panic(elabError{"impl block: unknown ghost " + ref.Impl.Ghost})
			}
			gty, gerr := w.resolveType(g.T, g.Imports, "")
			if gerr != nil || gty.K != KArr || gty.Elem.K != KArr {
				panic(elabError{"impl block: ghost " + ref.Impl.Ghost + " must be arr[int]arr[K]V"})
			}
			e.ensureSortDecl(gty)
			e.refine = &refineCtx{impl: ref.Impl, recv: args[0], selfPay: app("if-pay", self.T), ty: gty, cache: map[*State]string{}, entry: st0}
		}
		env.Imports = w.ImportsOf[con]
		env.Pkg = con.PkgPath
		for i, n := range con.Params {
			if i < len(args) {
				env.Vars[n] = args[i]
			}
		}
		if len(con.Params) > 0 {
			env.Vars[con.Params[0]] = self
		}
		env.Vars["self"] = self
		ienv := *env
		ienv.Imports = ref.Impl.Imports
		ienv.Pkg = ref.Impl.Pkg
		for _, r := range ref.Impl.Requires {
			e.S.assume(e.elabClause(&ienv, r))
		}
		for _, r := range ref.Impl.Invariants {
			e.S.assume(e.elabClause(&ienv, r))
		}
		for _, r := range con.Requires {
			e.S.assume(e.elabClause(env, r))
		}
		for _, m := range ref.Impl.Private {
			ts, all := e.resolveMod(&ienv, m)
			if all {
				e.top.everything = true
			}
			e.top.targets = append(e.top.targets, ts...)
		}
		for _, m := range con.Modifies {
			ts, all := e.resolveMod(env, m)
			if all {
				e.top.everything = true
			}
			e.top.targets = append(e.top.targets, ts...)
		}
		o := e.oblig(st0, "cover", "requires-sat", "false", "precondition satisfiable", "")
		o.Cover = true
	} else if con != nil {
		env.Imports = w.ImportsOf[con]
		env.Pkg = con.PkgPath
		for i, n := range con.Params {
			if i < len(args) {
				env.Vars[n] = args[i]
			}
		}
		for _, r := range con.Requires {
			e.S.assume(e.elabClause(env, r))
		}
		for _, r := range con.Assumes {
			e.S.assume(e.elabClause(env, r))
			e.Assumptions["assumed-precondition:"+displayName(fn)+"."+r.ID+" (the body is verified under it; callers are not asked to establish it): "+trunc(r.Src, 160)] = true
		}
		for _, m := range con.Modifies {
			ts, all := e.resolveMod(env, m)
			if all {
				e.top.everything = true
			}
			e.top.targets = append(e.top.targets, ts...)
		}
		// vacuity guard: the precondition (with type invariants and axioms) is satisfiable
		o := e.oblig(st0, "cover", "requires-sat", "false", "precondition satisfiable", "")
		o.Cover = true
	}
	// package invariants: assumed at entry (not for the package initialiser, which establishes them)
	var pkgInvs []*PkgInvariant
	if fn.Pkg != nil {
		pkgInvs = w.PkgInv[fn.Pkg.Pkg.Path()]
	}
	isInit := fn.Name() == "init" && fn.Signature.Recv() == nil
	if isInit && fn.Pkg != nil {
		// the initialiser is verified for its first (and only effective) run
		if g, ok := fn.Pkg.Members["init$guard"].(*ssa.Global); ok {
			ga := e.globalAddr(g)
			cur := e.load(st0, e.addrOf(ga))
			e.S.assume(not(cur.T))
		}
	}
	if !isInit {
		for _, iv := range pkgInvs {
			ienv := *env
			ienv.Imports = iv.Imports
			ienv.Pkg = iv.Pkg
			e.S.assume(e.elabClause(&ienv, iv.Clause))
			e.Assumptions["package-invariant:"+shortPkg(iv.Pkg)+"."+iv.Clause.ID+" (proved for the package initialiser and for functions under contract; assumed preserved by all other code)"] = true
		}
	}
	// lock discipline: a function is entered with no lock held, except those its contract requires
	// (requires held(x)); enforced at call sites by the lockorder obligations
	{
		e.regHeap("G.$held", "(Array Int Bool)")
		heldAtEntry := noLocks
		if con != nil {
			for _, r := range con.Requires {
				for _, hx := range heldConjuncts(r.E) {
					hv := env.elab(hx)
					heldAtEntry = app("store", heldAtEntry, hv.T, "true")
				}
			}
		}
		if ref != nil {
			ienv := *env
			ienv.Imports = ref.Impl.Imports
			ienv.Pkg = ref.Impl.Pkg
			for _, r := range ref.Impl.Requires {
				for _, hx := range heldConjuncts(r.E) {
					hv := ienv.elab(hx)
					heldAtEntry = app("store", heldAtEntry, hv.T, "true")
				}
			}
		}
		e.S.assume(eq(e.get(st0, "G.$held"), heldAtEntry))
		e.regHeap("G.$rheld", "(Array Int Bool)")
		e.S.assume(eq(e.get(st0, "G.$rheld"), noLocks))
		e.Assumptions["A-LOCK-ENTRY: a function is entered holding exactly the locks its contract requires (checked at call sites by the lockorder obligations of property C16)"] = true
	}
	// lemmas the contract says it uses: assumed here, proved as obligations of their own
	if con != nil {
		for _, ln := range con.Uses {
			found := false
			for _, ax := range w.Axioms {
				if ax.Lemma && ax.Name == ln {
					found = true
					lenv := &Env{E: e, Vars: map[string]Val{}, Imports: ax.Imports, Where: "lemma " + ax.Name,
						St: &State{Reach: "true", Vars: map[string]string{}}}
					e.S.assume(lenv.elabBool(ax.E))
					e.Assumptions["lemma:"+ln+" (used here; proved as obligation lemma."+ln+")"] = true
				}
			}
			if !found {
				panic(elabError{"uses: unknown lemma " + ln})
			}
		}
	}
	// discriminators of known findings, elaborated in the entry environment
	for _, id := range sortedKeys(excepts) {
		toks, lerr := lexSpec("known_findings.json:"+id, 1, excepts[id])
		if lerr != nil {
			panic(elabError{lerr.Error()})
		}
		ps := &parser{toks: toks}
		var ex Expr
		func() {
			defer func() {
				if r := recover(); r != nil {
					if pe, ok := r.(parseError); ok {
						panic(elabError{pe.msg})
					}
					panic(r)
				}
			}()
			ex = ps.parseExpr()
		}()
		saved := env.Where
		env.Where = "known finding " + id
		e.exceptTerms[id] = env.elabBool(ex)
		env.Where = saved
	}
	rets, out := e.runFunc(fn, args, fvs, st0, "top")
	// lock discipline: every return leaves the lock set as it was at entry
	for ri, r := range e.topRets {
		e.oblig(r.st, "lockbalance", fmt.Sprintf("ret%d", ri+1), and(eq(e.get(r.st, "G.$held"), e.get(st0, "G.$held")), eq(e.get(r.st, "G.$rheld"), e.get(st0, "G.$rheld"))), "locks held at return are those held at entry", r.pos)
	}
	if len(pkgInvs) > 0 && (con != nil || isInit) {
		for ri, r := range e.topRets {
			for _, iv := range pkgInvs {
				ienv := *env
				ienv.Imports = iv.Imports
				ienv.Pkg = iv.Pkg
				ienv.St = r.st
				t := e.elabClause(&ienv, iv.Clause)
				e.oblig(r.st, "post", fmt.Sprintf("pkginv.%s@ret%d", iv.Clause.ID, ri+1), t, iv.Clause.Src, fmt.Sprintf("%s:%d", shortFile(iv.Clause.File), iv.Clause.Line))
			}
		}
	}
	if con != nil {
		// vacuity guard: some return is reachable
		o := e.oblig(&State{Reach: "true"}, "cover", "return-reachable", not(out.Reach), "some return reachable", "")
		o.Cover = true
		coverTerms := map[string][]string{}
		coverSrc := map[string]Clause{}
		for ri, r := range e.topRets {
			env2 := *env
			env2.St = r.st
			env2.Old = st0
			env2.Vars = map[string]Val{}
			for k, v := range env.Vars {
				env2.Vars[k] = v
			}
			bindResults(&env2, con, fn.Signature, r.vals)
			if ref != nil {
				ienv2 := env2
				ienv2.Imports = ref.Impl.Imports
				ienv2.Pkg = ref.Impl.Pkg
				for _, iv := range ref.Impl.Invariants {
					t := e.elabClause(&ienv2, iv)
					e.oblig(r.st, "refine", fmt.Sprintf("repinv.%s@ret%d", iv.ID, ri+1), t, iv.Src, fmt.Sprintf("%s:%d return at %s", shortFile(iv.File), iv.Line, r.pos))
				}
			}
			for _, en := range con.Ensures {
				if ref != nil && con.Assumed[en.ID] {
					e.Assumptions["assumed-clause:"+con.Key+"."+en.ID] = true
					continue
				}
				if ref != nil && con.Derived[en.ID] != "" {
					e.Assumptions["derived-clause:"+en.ID+" follows by lemma "+con.Derived[en.ID]] = true
					continue
				}
				if strings.HasPrefix(en.ID, "cover_") {
					// vacuity guard written in the contract: the condition holds at SOME return of
					// SOME execution (one obligation over all returns, answer sat expected)
					coverTerms[en.ID] = append(coverTerms[en.ID], and(r.st.Reach, e.elabClause(&env2, en)))
					coverSrc[en.ID] = en
					continue
				}
				t := e.elabClause(&env2, en)
				what := fmt.Sprintf("%s@ret%d", en.ID, ri+1)
				if ref != nil {
					what = fmt.Sprintf("%s.%s.%s@ret%d", shortName(ref.Impl.Iface), con.Method, en.ID, ri+1)
				}
				po := e.oblig(r.st, postKind, what, t, en.Src, fmt.Sprintf("%s:%d return at %s", shortFile(en.File), en.Line, r.pos))
				po.RetVals = r.vals
			}
		}
		for _, id := range sortedKeys(coverTerms) {
			en := coverSrc[id]
			o := e.oblig(&State{Reach: "true"}, "cover", id, not(or(coverTerms[id]...)), en.Src, fmt.Sprintf("%s:%d", shortFile(en.File), en.Line))
			o.Cover = true
		}
		_ = rets
	}
	return res
}

func shortFile(f string) string {
	if i := strings.LastIndex(f, "/"); i >= 0 {
		return f[i+1:]
	}
	return f
}

// genLemma generates the single obligation of a lemma (pure SMT validity over spec functions).
func genLemma(p *Program, w *World, ax *Axiom) (res *FuncResult) {
	e := newExec(p, w)
	e.FnName = "lemma." + ax.Name
	res = &FuncResult{Fn: e.FnName, Key: e.FnName, HasContract: true}
	defer func() {
		if r := recover(); r != nil {
			switch x := r.(type) {
			case execAbort:
				res.Err = "ENGINE-LIMIT: " + x.msg
			case elabError:
				res.Err = "CONTRACT-ERROR: " + x.msg
			default:
				panic(r)
			}
		}
		res.Obls = e.Obls
		for a := range e.Assumptions {
			res.Assumptions = append(res.Assumptions, a)
		}
		sort.Strings(res.Assumptions)
	}()
	e.S.declare(topVar, "Int")
	st0 := &State{Reach: "true", Vars: map[string]string{}}
	env := &Env{E: e, Vars: map[string]Val{}, St: st0, Old: st0, Imports: ax.Imports, Where: "lemma " + ax.Name}
	t := env.elabBool(ax.E)
	e.oblig(st0, "lemma", ax.Name, t, "", fmt.Sprintf("%s:%d", shortFile(ax.File), ax.Line))
	return res
}

// scriptFor builds the SMT-LIB body of an obligation.
func scriptFor(o *Obligation) string {
	var b strings.Builder
	for _, l := range o.Script.lines[:o.Prefix] {
		b.WriteString(l)
		b.WriteByte('\n')
	}
	for _, l := range o.Extra {
		b.WriteString(l)
		b.WriteByte('\n')
	}
	if o.Cover {
		// cover: the goal's negation... a cover obligation asks whether (prefix ∧ ¬goal) is SAT,
		// which is the same query; only the expected answer differs.
	}
	b.WriteString("(assert (not " + o.Goal + "))\n")
	return b.String()
}

type dischargeOpts struct {
	OutDir     string
	TimeoutS   int
	Seed       int
	CrossCheck bool
	Workers    int
}

// discharge runs the solvers on all obligations.
func discharge(obls []*Obligation, opt dischargeOpts) {
	var wg sync.WaitGroup
	sem := make(chan struct{}, opt.Workers)
	for _, o := range obls {
		o := o
		if o.Result != "" {
			continue // decided by the batch pass
		}
		if o.Goal == "true" && !o.Cover {
			o.Result = "unsat"
			o.Solver = "trivial"
			continue
		}
		wg.Add(1)
		sem <- struct{}{}
		go func() {
			defer wg.Done()
			defer func() { <-sem }()
			body := scriptFor(o)
			if len(body) > 6000*1024 {
				o.Result = "error"
				o.Output = fmt.Sprintf("script of %d bytes exceeds the size cap; split %s", len(body), o.Func)
				return
			}
			tmo := opt.TimeoutS
			if o.Cover && tmo > 12 {
				// a cover (vacuity) obligation passes unless it is refuted: waiting longer for a
				// witness that quantified hypotheses rarely yield only costs time
				tmo = 12
			}
			r := solve(opt.OutDir, o.Name, body, tmo, opt.Seed, false, opt.CrossCheck && !o.Cover, nil)
			o.Result, o.Solver, o.TimeS, o.Output = r.Result, r.Solver, r.TimeS, r.Output
		}()
	}
	wg.Wait()
}

// batchDischarge: first pass — one incremental z3 session per function walks the function's script
// and checks every obligation in place (push / assert negated goal / check-sat / pop). Whatever it
// does not decide as expected is left for the per-obligation solver race.
func batchDischarge(groups [][]*Obligation, opt dischargeOpts, perQueryMs int) {
	var wg sync.WaitGroup
	sem := make(chan struct{}, opt.Workers)
	for gi, g := range groups {
		if len(g) == 0 {
			continue
		}
		g := g
		gi := gi
		wg.Add(1)
		sem <- struct{}{}
		go func() {
			defer wg.Done()
			defer func() { <-sem }()
			var b strings.Builder
			fmt.Fprintf(&b, "(set-option :timeout %d)\n", perQueryMs)
			sc := g[0].Script
			pos := 0
			n := 0
			var asked []*Obligation
			for _, o := range g {
				if o.Script != sc || o.Prefix < pos || len(o.Extra) > 0 {
					continue
				}
				if o.Goal == "true" && !o.Cover {
					continue
				}
				for ; pos < o.Prefix; pos++ {
					b.WriteString(sc.lines[pos])
					b.WriteByte('\n')
				}
				b.WriteString("(push 1)\n(assert (not " + o.Goal + "))\n(check-sat)\n(pop 1)\n")
				asked = append(asked, o)
				n++
			}
			if n == 0 {
				return
			}
			os.MkdirAll(opt.OutDir, 0o755)
			file := fmt.Sprintf("%s/batch_%d_%s.smt2", opt.OutDir, gi, sanitizeFile(g[0].Func))
			os.WriteFile(file, []byte(b.String()), 0o644)
			start := time.Now()
			ctx, cancel := context.WithTimeout(context.Background(), time.Duration(30+n*perQueryMs/1000)*time.Second)
			defer cancel()
			cmd := exec.CommandContext(ctx, "z3-new", fmt.Sprintf("smt.random_seed=%d", opt.Seed), file)
			out, _ := cmd.Output()
			el := time.Since(start).Seconds()
			answers := strings.Fields(string(out))
			k := 0
			for _, a := range answers {
				if a != "sat" && a != "unsat" && a != "unknown" {
					// an error message: stop trusting the alignment
					break
				}
				if k >= len(asked) {
					break
				}
				o := asked[k]
				k++
				if (a == "unsat" && !o.Cover) || (a == "sat" && o.Cover) {
					o.Result = a
					o.Solver = "z3-new(batch)"
					o.TimeS = el / float64(n)
				}
			}
		}()
	}
	wg.Wait()
}

// ok reports whether the obligation is in its expected state.
func (o *Obligation) ok() bool {
	if o.Cover {
		return o.Result == "sat" || o.Result == "unknown" || o.Result == "timeout"
	}
	return o.Result == "unsat"
}

// sweepFuncs: the functions reachable from roots inside non-generated repo code.
func reachableRepoFuncs(p *Program, roots []*ssa.Function) []*ssa.Function {
	seen := map[*ssa.Function]bool{}
	var order []*ssa.Function
	var visit func(fn *ssa.Function)
	inRepo := func(fn *ssa.Function) bool {
		pk := fn.Pkg
		if pk == nil && fn.Parent() != nil {
			pk = fn.Parent().Pkg
		}
		if pk == nil {
			return false
		}
		path := pk.Pkg.Path()
		return strings.HasPrefix(path, p.ModPath+"/internal") || strings.HasPrefix(path, p.ModPath+"/cmd")
	}
	visit = func(fn *ssa.Function) {
		if fn == nil || seen[fn] || fn.Blocks == nil || !inRepo(fn) {
			return
		}
		seen[fn] = true
		order = append(order, fn)
		for _, b := range fn.Blocks {
			for _, ins := range b.Instrs {
				var c *ssa.CallCommon
				switch x := ins.(type) {
				case *ssa.Call:
					c = x.Common()
				case *ssa.Defer:
					c = &x.Call
				case *ssa.Go:
					c = &x.Call
				case *ssa.MakeClosure:
					visit(x.Fn.(*ssa.Function))
				}
				if c == nil {
					continue
				}
				if c.IsInvoke() {
					// all repo implementations of the method
					for _, impl := range implementations(p, c.Method) {
						visit(impl)
					}
					continue
				}
				if callee := c.StaticCallee(); callee != nil {
					visit(callee)
				}
			}
		}
	}
	for _, r := range roots {
		visit(r)
	}
	return order
}

func implementations(p *Program, m *types.Func) []*ssa.Function {
	var out []*ssa.Function
	sig := m.Type().(*types.Signature)
	if sig.Recv() == nil {
		return nil
	}
	it, ok := sig.Recv().Type().Underlying().(*types.Interface)
	if !ok {
		return nil
	}
	for _, pk := range p.SSA.AllPackages() {
		if !strings.HasPrefix(pk.Pkg.Path(), p.ModPath+"/internal") {
			continue
		}
		for _, mem := range pk.Members {
			tn, ok := mem.(*ssa.Type)
			if !ok {
				continue
			}
			for _, t := range []types.Type{tn.Type(), types.NewPointer(tn.Type())} {
				if _, isIface := tn.Type().Underlying().(*types.Interface); isIface {
					continue
				}
				if types.Implements(t, it) {
					ms := p.SSA.MethodSets.MethodSet(t)
					if sel := ms.Lookup(m.Pkg(), m.Name()); sel != nil {
						if fn := p.SSA.MethodValue(sel); fn != nil {
							if fn.Synthetic != "" {
								// wrapper: find the declared method
								if d := p.SSA.FuncValue(sel.Obj().(*types.Func)); d != nil {
									fn = d
								}
							}
							out = append(out, fn)
						}
					}
					break
				}
			}
		}
	}
	return out
}


// heldConjuncts: the arguments x of the top-level conjuncts held(x) of a requires clause.
func heldConjuncts(x Expr) []Expr {
	switch y := x.(type) {
	case *EBin:
		if y.Op == "&&" {
			return append(heldConjuncts(y.X), heldConjuncts(y.Y)...)
		}
	case *ECall:
		if y.Fun == "held" && y.Recv == nil && len(y.Args) == 1 {
			return []Expr{y.Args[0]}
		}
	}
	return nil
}
