package main

import (
	"fmt"
	"go/types"
	"os"
	"path/filepath"
	"sort"
	"strings"

	"golang.org/x/tools/go/ssa"
)

// World: all contracts, spec functions, axioms, datatypes and ghost variables, resolved
// against the loaded program.
type World struct {
	P         *Program
	Contracts map[string]*Contract // function key (funcKey) / iface-method key -> contract
	Funcs     map[string]*SpecFunc
	Axioms    []*Axiom
	AxByName  map[string]*Axiom
	Types     map[string]*DataType
	Ghosts    map[string]*GhostVar
	GhostList []string
	Orphans   []string
	// per contract: the import alias table of the file it came from
	ImportsOf map[*Contract]map[string]string
	// contract -> resolved ssa function (repo functions)
	FnOf map[*Contract]*ssa.Function
	// implementations declared for interface contracts: iface key -> list of concrete types
	Errors []string
	// package invariants: package path -> clauses (assumed at entry of the package's functions,
	// proved at the end of the package initialiser and at every return of functions under contract)
	PkgInv map[string][]*PkgInvariant
	// lock discipline (C16): guard declarations by field-heap name / by global name ("glob.<mangled>")
	GuardField  map[string]*GuardDecl
	GuardGlobal map[string]*GuardDecl
	GuardType   map[string]types.Type // field-heap name -> the struct type (for `this`)
	GuardDecls  []*GuardDecl
	mayLock     map[*ssa.Function]int
	// contract variants: VarContracts[variant][key]; ActiveVariant selects which are in force
	VarContracts  map[string]map[string]*Contract
	ActiveVariant string
	// refinement: function key of an implementing method -> (impl block, interface method contract)
	Refines map[string]*Refinement
	Impls   []*ImplBlock
}

type Refinement struct {
	Impl *ImplBlock
	Con  *Contract // the interface method's contract
	Fn   *ssa.Function
}

func loadWorld(p *Program, specDirs []string) (*World, error) {
	w := &World{P: p, Contracts: map[string]*Contract{}, Funcs: map[string]*SpecFunc{}, AxByName: map[string]*Axiom{},
		Types: map[string]*DataType{}, Ghosts: map[string]*GhostVar{}, ImportsOf: map[*Contract]map[string]string{},
		FnOf: map[*Contract]*ssa.Function{}, PkgInv: map[string][]*PkgInvariant{}, GuardField: map[string]*GuardDecl{}, GuardGlobal: map[string]*GuardDecl{}, GuardType: map[string]types.Type{}, Refines: map[string]*Refinement{}}
	addFile := func(sf *SpecFile, pkg string) {
		for _, f := range sf.Funcs {
			if _, dup := w.Funcs[f.Name]; dup {
				w.Errors = append(w.Errors, fmt.Sprintf("%s:%d: duplicate spec function %s", f.File, f.Line, f.Name))
			}
			w.Funcs[f.Name] = f
		}
		for _, a := range sf.Axioms {
			w.Axioms = append(w.Axioms, a)
			w.AxByName[a.Name] = a
		}
		for _, t := range sf.Types {
			w.Types[t.Name] = t
		}
		for _, g := range sf.Ghosts {
			w.Ghosts[g.Name] = g
			w.GhostList = append(w.GhostList, g.Name)
		}
		w.Impls = append(w.Impls, sf.Impls...)
		for _, iv := range sf.Invariants {
			w.PkgInv[iv.Pkg] = append(w.PkgInv[iv.Pkg], iv)
		}
		for _, g := range sf.Guards {
			w.GuardDecls = append(w.GuardDecls, g)
			path := g.Pkg
			if g.Alias != "" {
				if ip, ok := sf.Imports[g.Alias]; ok {
					path = ip
				} else {
					path = g.Alias
				}
			}
			pk := w.P.ByPath[path]
			if pk == nil {
				w.Orphans = append(w.Orphans, fmt.Sprintf("%s:%d: guarded: unknown package %s", g.File, g.Line, path))
				continue
			}
			if g.Kind == "global" {
				if pk.Types.Scope().Lookup(g.Name) == nil {
					w.Orphans = append(w.Orphans, fmt.Sprintf("%s:%d: guarded: unknown global %s.%s", g.File, g.Line, path, g.Name))
					continue
				}
				w.GuardGlobal["glob."+mangle(path+"."+g.Name)] = g
				continue
			}
			obj := pk.Types.Scope().Lookup(g.Type)
			if obj == nil {
				w.Orphans = append(w.Orphans, fmt.Sprintf("%s:%d: guarded: unknown type %s.%s", g.File, g.Line, path, g.Type))
				continue
			}
			st, ok := obj.Type().Underlying().(*types.Struct)
			found := false
			if ok {
				for i := 0; i < st.NumFields(); i++ {
					if st.Field(i).Name() == g.Name || g.Name == "*" {
						found = true
						hn := fieldHeapName(obj.Type(), st.Field(i).Name())
						w.GuardField[hn] = g
						w.GuardType[hn] = obj.Type()
					}
				}
			}
			if !found {
				w.Orphans = append(w.Orphans, fmt.Sprintf("%s:%d: guarded: no field %s in %s.%s", g.File, g.Line, g.Name, path, g.Type))
			}
		}
		for _, c := range sf.Contracts {
			w.ImportsOf[c] = sf.Imports
			key := w.resolveContractKey(c, pkg, sf.Imports)
			if key == "" {
				w.Orphans = append(w.Orphans, fmt.Sprintf("%s:%d: %s", c.File, c.Line, c.Key))
				continue
			}
			if c.Variant != "" {
				if w.VarContracts == nil {
					w.VarContracts = map[string]map[string]*Contract{}
				}
				if w.VarContracts[c.Variant] == nil {
					w.VarContracts[c.Variant] = map[string]*Contract{}
				}
				w.VarContracts[c.Variant][key] = c
				continue
			}
			if _, dup := w.Contracts[key]; dup {
				w.Errors = append(w.Errors, fmt.Sprintf("%s:%d: duplicate contract for %s", c.File, c.Line, key))
			}
			w.Contracts[key] = c
		}
	}
	// spec library + trusted contracts
	for _, dir := range specDirs {
		files, _ := filepath.Glob(filepath.Join(dir, "*.gospec"))
		sort.Strings(files)
		for _, f := range files {
			b, err := os.ReadFile(f)
			if err != nil {
				return nil, err
			}
			sf, err := parseSpecFile(f, 1, string(b), "")
			if err != nil {
				return nil, err
			}
			addFile(sf, "")
		}
	}
	// contracts in /repo
	var pkgs []string
	for pk := range p.ContractSrc {
		pkgs = append(pkgs, pk)
	}
	sort.Strings(pkgs)
	for _, pk := range pkgs {
		lines := p.ContractSrc[pk]
		var toks []stok
		for _, l := range lines {
			ts, err := lexSpec(l.File, l.Line, l.Text)
			if err != nil {
				return nil, fmt.Errorf("CONTRACT-SYNTAX: %v", err)
			}
			toks = append(toks, ts[:len(ts)-1]...)
		}
		last := stok{k: tEOF}
		if len(lines) > 0 {
			last.file = lines[len(lines)-1].File
			last.line = lines[len(lines)-1].Line
		}
		toks = append(toks, last)
		sf, err := parseSpecTokens(toks, pk)
		if err != nil {
			return nil, err
		}
		addFile(sf, pk)
	}
	// refinements: every method of the interface that has a contract, on the implementing type
	for _, ib := range w.Impls {
		ipath, iname := w.splitQual(ib.Iface, ib.Pkg, ib.Imports)
		pk := w.P.ByPath[ipath]
		if pk == nil || pk.Types.Scope().Lookup(iname) == nil {
			w.Orphans = append(w.Orphans, fmt.Sprintf("%s:%d: impl of unknown interface %s", ib.File, ib.Line, ib.Iface))
			continue
		}
		it, ok := pk.Types.Scope().Lookup(iname).Type().Underlying().(*types.Interface)
		if !ok {
			w.Orphans = append(w.Orphans, fmt.Sprintf("%s:%d: %s is not an interface", ib.File, ib.Line, ib.Iface))
			continue
		}
		n := 0
		for i := 0; i < it.NumMethods(); i++ {
			m := it.Method(i)
			con := w.Contracts[ipath+"."+iname+"."+m.Name()]
			if con == nil {
				continue
			}
			fn := w.P.lookupFunc(ib.Pkg, "("+ib.Recv+")."+m.Name())
			if fn == nil {
				w.Orphans = append(w.Orphans, fmt.Sprintf("%s:%d: impl (%s) %s: method %s not found", ib.File, ib.Line, ib.Recv, ib.Iface, m.Name()))
				continue
			}
			w.Refines[funcKey(fn)] = &Refinement{Impl: ib, Con: con, Fn: fn}
			n++
		}
		if n == 0 {
			w.Orphans = append(w.Orphans, fmt.Sprintf("%s:%d: impl (%s) %s: no method with a contract", ib.File, ib.Line, ib.Recv, ib.Iface))
		}
	}
	if len(w.Errors) > 0 {
		return nil, fmt.Errorf("CONTRACT-ERROR: %s", strings.Join(w.Errors, "; "))
	}
	return w, nil
}

// resolveContractKey returns the canonical key for the contract, or "" if it resolves to nothing.
func (w *World) resolveContractKey(c *Contract, pkg string, imports map[string]string) string {
	if c.Iface != "" {
		// interface method: "Name" (package-local) or "alias.Name" or full path
		path, name := w.splitQual(c.Iface, pkg, imports)
		pk := w.P.ByPath[path]
		if pk == nil {
			return ""
		}
		obj := pk.Types.Scope().Lookup(name)
		if obj == nil {
			return ""
		}
		it, ok := obj.Type().Underlying().(*types.Interface)
		if !ok {
			return ""
		}
		found := false
		for i := 0; i < it.NumMethods(); i++ {
			if it.Method(i).Name() == c.Method {
				found = true
			}
		}
		if !found {
			return ""
		}
		return path + "." + name + "." + c.Method
	}
	key := c.Key
	if pkg != "" && !strings.Contains(key, "/") && !w.hasAliasPrefix(key, imports) {
		// package-local function or method
		fn := w.P.lookupFunc(pkg, key)
		if fn == nil {
			// a package-level function variable (var deny = func(...) ...): the contract is attached to
			// the variable; the function literal the initialiser stores into it is what gets verified
			if pk := w.P.SSA.ImportedPackage(pkg); pk != nil {
				if g, ok := pk.Members[key].(*ssa.Global); ok {
					if init := pk.Func("init"); init != nil {
						for _, b := range init.Blocks {
							for _, ins := range b.Instrs {
								if st, ok := ins.(*ssa.Store); ok && st.Addr == g {
									switch v := st.Val.(type) {
									case *ssa.Function:
										w.FnOf[c] = v
									case *ssa.MakeClosure:
										w.FnOf[c] = v.Fn.(*ssa.Function)
									}
								}
							}
						}
					}
					if f := w.FnOf[c]; f != nil {
						w.Contracts[funcKey(f)] = c
					}
					return pkg + "." + key
				}
			}
			return ""
		}
		w.FnOf[c] = fn
		return funcKey(fn)
	}
	// external: "(*path.T).M", "(path.T).M", "path.F", "path.Iface.M"; aliases allowed in place of path
	if strings.HasPrefix(key, "(") {
		end := strings.Index(key, ").")
		if end < 0 {
			return ""
		}
		recv := key[1:end]
		meth := key[end+2:]
		ptr := strings.HasPrefix(recv, "*")
		recv = strings.TrimPrefix(recv, "*")
		path, name := w.splitQual(recv, pkg, imports)
		star := ""
		if ptr {
			star = "*"
		}
		if fn := w.P.lookupFunc(path, "("+star+name+")."+meth); fn != nil {
			w.FnOf[c] = fn
			return funcKey(fn)
		}
		// the method may be promoted or synthetic; accept if the type exists and has the method
		if pk := w.P.ByPath[path]; pk != nil {
			if obj := pk.Types.Scope().Lookup(name); obj != nil {
				var t types.Type = obj.Type()
				if ptr {
					t = types.NewPointer(t)
				}
				ms := types.NewMethodSet(t)
				for i := 0; i < ms.Len(); i++ {
					if ms.At(i).Obj().Name() == meth {
						return path + ".(" + star + name + ")." + meth
					}
				}
			}
		}
		return ""
	}
	path, name := w.splitQual(key, pkg, imports)
	if pk := w.P.ByPath[path]; pk != nil {
		if obj := pk.Types.Scope().Lookup(name); obj != nil {
			if _, ok := obj.(*types.Func); ok {
				if sp := w.P.SSA.ImportedPackage(path); sp != nil {
					if fn := sp.Func(name); fn != nil {
						w.FnOf[c] = fn
					}
				}
				return path + "." + name
			}
			// package-level function variable (e.g. server.deny)
			if _, ok := obj.(*types.Var); ok {
				return path + "." + name
			}
		}
	}
	// path.Iface.Method
	if i := strings.LastIndex(key, "."); i > 0 {
		ipath, iname := w.splitQual(key[:i], pkg, imports)
		meth := key[i+1:]
		if pk := w.P.ByPath[ipath]; pk != nil {
			if obj := pk.Types.Scope().Lookup(iname); obj != nil {
				if it, ok := obj.Type().Underlying().(*types.Interface); ok {
					for j := 0; j < it.NumMethods(); j++ {
						if it.Method(j).Name() == meth {
							c.Iface = ipath + "." + iname
							c.Method = meth
							return ipath + "." + iname + "." + meth
						}
					}
				}
			}
		}
	}
	return ""
}

func (w *World) hasAliasPrefix(key string, imports map[string]string) bool {
	k := strings.TrimPrefix(strings.TrimPrefix(key, "("), "*")
	if i := strings.Index(k, "."); i > 0 {
		if _, ok := imports[k[:i]]; ok {
			return true
		}
		if _, ok := w.P.ByPath[k[:i]]; ok { // std package like "strings"
			return true
		}
	}
	return false
}

// splitQual splits "alias.Name" / "path/to/pkg.Name" / "Name" into (pkgpath, name).
func (w *World) splitQual(q string, pkg string, imports map[string]string) (string, string) {
	i := strings.LastIndex(q, ".")
	if i < 0 {
		return pkg, q
	}
	path, name := q[:i], q[i+1:]
	if full, ok := imports[path]; ok {
		return full, name
	}
	return path, name
}

// contractFor returns the contract of a static callee, if any.
func (w *World) contractFor(fn *ssa.Function) *Contract {
	if w.ActiveVariant != "" {
		if c, ok := w.VarContracts[w.ActiveVariant][funcKey(fn)]; ok {
			return c
		}
	}
	if c, ok := w.Contracts[funcKey(fn)]; ok {
		return c
	}
	return nil
}

// contractForIfaceMethod returns the contract for an interface method (by declaring interface).
func (w *World) contractForIfaceMethod(m *types.Func) *Contract {
	sig := m.Type().(*types.Signature)
	if sig.Recv() == nil {
		return nil
	}
	rt := sig.Recv().Type()
	if n, ok := rt.(*types.Named); ok && n.Obj().Pkg() != nil {
		key := n.Obj().Pkg().Path() + "." + n.Obj().Name() + "." + m.Name()
		if w.ActiveVariant != "" {
			if c, ok := w.VarContracts[w.ActiveVariant][key]; ok {
				return c
			}
		}
		if c, ok := w.Contracts[key]; ok {
			return c
		}
	}
	return nil
}

// resolveType resolves a spec TypeExpr to an STy.
func (w *World) resolveType(t *TypeExpr, imports map[string]string, pkg string) (*STy, error) {
	switch t.Kind {
	case "ptr":
		el, err := w.resolveGoType(t.Elem, imports, pkg)
		if err != nil {
			return nil, err
		}
		return tyOfGo(types.NewPointer(el)), nil
	case "slice":
		el, err := w.resolveGoType(t.Elem, imports, pkg)
		if err != nil {
			return nil, err
		}
		return tyOfGo(types.NewSlice(el)), nil
	case "map":
		k, err := w.resolveGoType(t.Key, imports, pkg)
		if err != nil {
			return nil, err
		}
		v, err := w.resolveGoType(t.Elem, imports, pkg)
		if err != nil {
			return nil, err
		}
		return tyOfGo(types.NewMap(k, v)), nil
	case "arr":
		k, err := w.resolveType(t.Key, imports, pkg)
		if err != nil {
			return nil, err
		}
		v, err := w.resolveType(t.Elem, imports, pkg)
		if err != nil {
			return nil, err
		}
		return &STy{K: KArr, Key: k, Elem: v}, nil
	}
	if t.Pkg == "" {
		switch t.Name {
		case "int":
			return tyInt, nil
		case "bool":
			return tyBool, nil
		case "string":
			return tyString, nil
		case "time":
			return tyTime, nil
		case "ref":
			return tyRefAny, nil
		case "iface", "any", "error":
			return tyIface, nil
		}
		if _, ok := w.Types[t.Name]; ok {
			return &STy{K: KData, Name: t.Name}, nil
		}
	}
	gt, err := w.resolveGoType(t, imports, pkg)
	if err != nil {
		return nil, err
	}
	return tyOfGo(gt), nil
}

func (w *World) resolveGoType(t *TypeExpr, imports map[string]string, pkg string) (types.Type, error) {
	switch t.Kind {
	case "ptr":
		el, err := w.resolveGoType(t.Elem, imports, pkg)
		if err != nil {
			return nil, err
		}
		return types.NewPointer(el), nil
	case "slice":
		el, err := w.resolveGoType(t.Elem, imports, pkg)
		if err != nil {
			return nil, err
		}
		return types.NewSlice(el), nil
	case "map":
		k, err := w.resolveGoType(t.Key, imports, pkg)
		if err != nil {
			return nil, err
		}
		v, err := w.resolveGoType(t.Elem, imports, pkg)
		if err != nil {
			return nil, err
		}
		return types.NewMap(k, v), nil
	case "arr":
		return nil, fmt.Errorf("arr type is not a Go type")
	}
	if t.Pkg == "" {
		switch t.Name {
		case "int":
			return types.Typ[types.Int], nil
		case "int32":
			return types.Typ[types.Int32], nil
		case "int64":
			return types.Typ[types.Int64], nil
		case "uint32":
			return types.Typ[types.Uint32], nil
		case "byte":
			return types.Typ[types.Byte], nil
		case "bool":
			return types.Typ[types.Bool], nil
		case "string":
			return types.Typ[types.String], nil
		case "error":
			return types.Universe.Lookup("error").Type(), nil
		case "any":
			return types.NewInterfaceType(nil, nil), nil
		}
		if pkg != "" {
			if pk := w.P.ByPath[pkg]; pk != nil {
				if obj := pk.Types.Scope().Lookup(t.Name); obj != nil {
					return obj.Type(), nil
				}
			}
		}
		return nil, fmt.Errorf("unknown type %s", t.Name)
	}
	path, ok := imports[t.Pkg]
	if !ok {
		path = t.Pkg
	}
	pk := w.P.ByPath[path]
	if pk == nil {
		return nil, fmt.Errorf("unknown package %s in type %s", t.Pkg, t.String())
	}
	obj := pk.Types.Scope().Lookup(t.Name)
	if obj == nil {
		return nil, fmt.Errorf("unknown type %s", t.String())
	}
	return obj.Type(), nil
}
