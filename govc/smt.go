package main

import (
	"fmt"
	"go/types"
	"sort"
	"strconv"
	"strings"
)

// ---------------------------------------------------------------------------
// Spec/SMT types
// ---------------------------------------------------------------------------

type Kind int

const (
	KInt Kind = iota
	KBool
	KString
	KRef    // pointer to a Go struct / cell; SMT Int, nil = 0
	KSlice  // Go slice value: datatype Slice(base, off, len)
	KMap    // Go map reference; SMT Int
	KIface  // Go interface value: datatype Iface(tag, pay)
	KStruct // Go struct value: datatype per struct type
	KArr    // spec-level total SMT array
	KData   // spec-level datatype
	KTime   // time.Time abstracted to an Int instant
	KFunc   // Go function value (opaque Int unless known closure)
	KReal
	KTuple
)

type STy struct {
	K    Kind
	Go   types.Type // Go type where the value came from Go (may be nil for pure spec types)
	Key  *STy       // KArr
	Elem *STy       // KArr
	Name string     // KData
}

var (
	tyInt    = &STy{K: KInt}
	tyBool   = &STy{K: KBool}
	tyString = &STy{K: KString}
	tyTime   = &STy{K: KTime}
	tyRefAny = &STy{K: KRef}
	tyIface  = &STy{K: KIface}
	tyReal   = &STy{K: KReal}
)

func (t *STy) String() string {
	switch t.K {
	case KInt:
		return "int"
	case KBool:
		return "bool"
	case KString:
		return "string"
	case KTime:
		return "time"
	case KReal:
		return "real"
	case KArr:
		return "arr[" + t.Key.String() + "]" + t.Elem.String()
	case KData:
		return t.Name
	}
	if t.Go != nil {
		return t.Go.String()
	}
	return fmt.Sprintf("kind%d", t.K)
}

func isTimeType(t types.Type) bool {
	if n, ok := t.(*types.Named); ok && n.Obj().Pkg() != nil {
		return n.Obj().Pkg().Path() == "time" && n.Obj().Name() == "Time"
	}
	return false
}

// tyOfGo maps a Go type to its spec type.
func tyOfGo(t types.Type) *STy {
	if isTimeType(t) {
		return &STy{K: KTime, Go: t}
	}
	switch u := t.Underlying().(type) {
	case *types.Basic:
		switch {
		case u.Info()&types.IsBoolean != 0:
			return &STy{K: KBool, Go: t}
		case u.Info()&types.IsString != 0:
			return &STy{K: KString, Go: t}
		case u.Info()&types.IsInteger != 0:
			return &STy{K: KInt, Go: t}
		case u.Info()&types.IsFloat != 0:
			return &STy{K: KReal, Go: t}
		case u.Kind() == types.UnsafePointer:
			return &STy{K: KRef, Go: t}
		case u.Kind() == types.UntypedNil:
			return &STy{K: KRef, Go: t}
		}
		return &STy{K: KInt, Go: t}
	case *types.Pointer:
		return &STy{K: KRef, Go: t}
	case *types.Slice:
		return &STy{K: KSlice, Go: t}
	case *types.Map:
		return &STy{K: KMap, Go: t}
	case *types.Chan:
		return &STy{K: KRef, Go: t}
	case *types.Signature:
		return &STy{K: KFunc, Go: t}
	case *types.Interface:
		return &STy{K: KIface, Go: t}
	case *types.Struct:
		return &STy{K: KStruct, Go: t}
	case *types.Array:
		// array values are handled through their address only; as a value: opaque
		return &STy{K: KStruct, Go: t}
	case *types.Tuple:
		return &STy{K: KTuple, Go: t}
	}
	return &STy{K: KInt, Go: t}
}

// mangle makes an SMT-safe identifier fragment out of a Go type string.
func mangle(s string) string {
	s = strings.ReplaceAll(s, repoModule+"/", "")
	var b strings.Builder
	for _, r := range s {
		switch {
		case r >= 'a' && r <= 'z', r >= 'A' && r <= 'Z', r >= '0' && r <= '9', r == '_':
			b.WriteRune(r)
		case r == '*':
			b.WriteString("P")
		case r == '[':
			b.WriteString("L")
		case r == ']':
			b.WriteString("R")
		case r == '.', r == '/':
			b.WriteString("_")
		default:
			b.WriteString("_")
		}
	}
	return b.String()
}

// structSortName: datatype name for a Go struct value type.
func structSortName(t types.Type) string {
	return "S_" + mangle(types.TypeString(t, nil))
}

func (t *STy) Sort() string {
	switch t.K {
	case KInt, KRef, KMap, KTime, KFunc:
		return "Int"
	case KBool:
		return "Bool"
	case KString:
		return "String"
	case KReal:
		return "Real"
	case KSlice:
		return "Slice"
	case KIface:
		return "Iface"
	case KStruct:
		return structSortName(t.Go)
	case KArr:
		return "(Array " + t.Key.Sort() + " " + t.Elem.Sort() + ")"
	case KData:
		return t.Name
	}
	return "Int"
}

// sortKey is a mangled sort usable in identifiers.
func sortKey(s string) string { return mangle(s) }

// zero value term of a type.
func (t *STy) Zero(e *Script) string {
	switch t.K {
	case KInt, KRef, KMap, KFunc:
		return "0"
	case KTime:
		return "TZERO"
	case KBool:
		return "false"
	case KString:
		return "\"\""
	case KReal:
		return "0.0"
	case KSlice:
		return "(mk-slice 0 0 0)"
	case KIface:
		return "(mk-iface 0 0)"
	case KStruct:
		return e.structZero(t.Go)
	}
	return "0"
}

// ---------------------------------------------------------------------------
// Script: an ordered list of SMT-LIB commands; any prefix is well-formed.
// ---------------------------------------------------------------------------

type Script struct {
	lines    []string
	declared map[string]bool
	structs  map[string]bool
	fresh    int
	typeTags map[string]int
	tagNames []string
	tagTypes []types.Type
}

func newScript() *Script {
	s := &Script{declared: map[string]bool{}, structs: map[string]bool{}, typeTags: map[string]int{}}
	s.lines = append(s.lines,
		"(declare-datatypes ((Slice 0)) (((mk-slice (sl-base Int) (sl-off Int) (sl-len Int)))))",
		"(declare-datatypes ((Iface 0)) (((mk-iface (if-tag Int) (if-pay Int)))))",
		"(declare-const TZERO Int)",
	)
	return s
}

func (s *Script) add(line string) { s.lines = append(s.lines, line) }

func (s *Script) mark() int { return len(s.lines) }

func (s *Script) freshName(hint string) string {
	s.fresh++
	return fmt.Sprintf("%s!%d", hint, s.fresh)
}

func (s *Script) declare(name, sort string) string {
	if !s.declared[name] {
		s.declared[name] = true
		s.add(fmt.Sprintf("(declare-const %s %s)", sym(name), sort))
	}
	return sym(name)
}

func (s *Script) declareFun(name string, args []string, ret string) {
	if !s.declared[name] {
		s.declared[name] = true
		s.add(fmt.Sprintf("(declare-fun %s (%s) %s)", sym(name), strings.Join(args, " "), ret))
	}
}

func (s *Script) define(name, sort, body string) string {
	if s.declared[name] {
		panic("redefinition of " + name)
	}
	s.declared[name] = true
	s.add(fmt.Sprintf("(define-fun %s () %s %s)", sym(name), sort, body))
	return sym(name)
}

func (s *Script) assume(t string) { s.add("(assert " + t + ")") }

// sym quotes a symbol if needed.
func sym(n string) string {
	for _, r := range n {
		if !(r >= 'a' && r <= 'z' || r >= 'A' && r <= 'Z' || r >= '0' && r <= '9' || strings.ContainsRune("_!@$%.-<>=*+/?~^&", r)) {
			return "|" + n + "|"
		}
	}
	if n == "" {
		return "||"
	}
	if n[0] >= '0' && n[0] <= '9' {
		return "|" + n + "|"
	}
	return n
}

func (s *Script) tagOf(t types.Type) int {
	k := strings.ReplaceAll(types.TypeString(t, nil), "interface{}", "any") // any is an alias of interface{}
	if v, ok := s.typeTags[k]; ok {
		return v
	}
	v := len(s.typeTags) + 1
	s.typeTags[k] = v
	s.tagNames = append(s.tagNames, k)
	s.tagTypes = append(s.tagTypes, t)
	return v
}

// ensureStruct declares the datatype for a Go struct value type.
func (s *Script) ensureStruct(t types.Type) string {
	name := structSortName(t)
	if s.structs[name] {
		return name
	}
	s.structs[name] = true
	st, ok := t.Underlying().(*types.Struct)
	if !ok {
		// opaque (arrays etc.)
		s.add(fmt.Sprintf("(declare-sort %s 0)", name))
		s.add(fmt.Sprintf("(declare-const zero_%s %s)", name, name))
		return name
	}
	var fields []string
	for i := 0; i < st.NumFields(); i++ {
		ft := tyOfGo(st.Field(i).Type())
		if ft.K == KStruct {
			s.ensureStruct(ft.Go)
		}
		fields = append(fields, fmt.Sprintf("(%s %s)", sym(structFieldSel(t, i)), ft.Sort()))
	}
	if len(fields) == 0 {
		s.add(fmt.Sprintf("(declare-datatypes ((%s 0)) (((mk-%s))))", name, name))
	} else {
		s.add(fmt.Sprintf("(declare-datatypes ((%s 0)) (((mk-%s %s))))", name, name, strings.Join(fields, " ")))
	}
	return name
}

func structFieldSel(t types.Type, i int) string {
	st := t.Underlying().(*types.Struct)
	return fmt.Sprintf("%s.%s", structSortName(t), st.Field(i).Name())
}

func (s *Script) structZero(t types.Type) string {
	name := s.ensureStruct(t)
	st, ok := t.Underlying().(*types.Struct)
	if !ok {
		return "zero_" + name
	}
	if st.NumFields() == 0 {
		return "mk-" + name
	}
	var parts []string
	for i := 0; i < st.NumFields(); i++ {
		parts = append(parts, tyOfGo(st.Field(i).Type()).Zero(s))
	}
	return "(mk-" + name + " " + strings.Join(parts, " ") + ")"
}

// ---------------------------------------------------------------------------
// term helpers
// ---------------------------------------------------------------------------

func smtInt(n int64) string {
	if n < 0 {
		return "(- " + strconv.FormatInt(-n, 10) + ")"
	}
	return strconv.FormatInt(n, 10)
}

func smtStr(v string) string {
	var b strings.Builder
	b.WriteByte('"')
	for i := 0; i < len(v); i++ {
		c := v[i]
		switch {
		case c == '"':
			b.WriteString("\"\"")
		case c >= 0x20 && c <= 0x7e && c != '\\':
			b.WriteByte(c)
		default:
			fmt.Fprintf(&b, "\\u{%x}", c)
		}
	}
	b.WriteByte('"')
	return b.String()
}

func and(xs ...string) string {
	var ys []string
	for _, x := range xs {
		if x == "true" || x == "" {
			continue
		}
		if x == "false" {
			return "false"
		}
		ys = append(ys, x)
	}
	switch len(ys) {
	case 0:
		return "true"
	case 1:
		return ys[0]
	}
	return "(and " + strings.Join(ys, " ") + ")"
}

func or(xs ...string) string {
	var ys []string
	for _, x := range xs {
		if x == "false" || x == "" {
			continue
		}
		if x == "true" {
			return "true"
		}
		ys = append(ys, x)
	}
	switch len(ys) {
	case 0:
		return "false"
	case 1:
		return ys[0]
	}
	return "(or " + strings.Join(ys, " ") + ")"
}

func not(x string) string {
	switch x {
	case "true":
		return "false"
	case "false":
		return "true"
	}
	if strings.HasPrefix(x, "(not ") && balanced(x[5:len(x)-1]) {
		return x[5 : len(x)-1]
	}
	return "(not " + x + ")"
}

func balanced(s string) bool {
	d := 0
	inStr := false
	for i := 0; i < len(s); i++ {
		c := s[i]
		if inStr {
			if c == '"' {
				inStr = false
			}
			continue
		}
		switch c {
		case '"':
			inStr = true
		case '(':
			d++
		case ')':
			d--
			if d < 0 {
				return false
			}
		}
	}
	return d == 0
}

func implies(a, b string) string {
	if a == "true" {
		return b
	}
	if b == "true" || a == "false" {
		return "true"
	}
	return "(=> " + a + " " + b + ")"
}

func ite(c, a, b string) string {
	if c == "true" {
		return a
	}
	if c == "false" {
		return b
	}
	if a == b {
		return a
	}
	return "(ite " + c + " " + a + " " + b + ")"
}

func eq(a, b string) string {
	if a == b {
		return "true"
	}
	return "(= " + a + " " + b + ")"
}

func app(f string, args ...string) string {
	if len(args) == 0 {
		return f
	}
	return "(" + f + " " + strings.Join(args, " ") + ")"
}

func sortedKeys[V any](m map[string]V) []string {
	ks := make([]string, 0, len(m))
	for k := range m {
		ks = append(ks, k)
	}
	sort.Strings(ks)
	return ks
}
