package main

import (
	"fmt"
	"strconv"
	"strings"
	"unicode"
)

// ---------------------------------------------------------------------------
// Lexer
// ---------------------------------------------------------------------------

type tokKind int

const (
	tEOF tokKind = iota
	tIdent
	tInt
	tStr
	tOp
)

type stok struct {
	k    tokKind
	s    string
	file string
	line int
}

func (t stok) String() string { return fmt.Sprintf("%q@%s:%d", t.s, t.file, t.line) }

var reserved = map[string]bool{
	"func": true, "interface": true, "method": true, "import": true, "spec": true, "abstract": true,
	"axiom": true, "lemma": true, "type": true, "ghost": true, "trusted": true, "requires": true,
	"ensures": true, "modifies": true, "loop": true, "invariant": true, "inline": true, "pure": true,
	"forall": true, "exists": true, "struct": true, "var": true, "const": true,
	"impl": true, "callinv": true, "unchecked": true, "assumes": true, "lockfree": true, "guarded": true, "acquires": true,
	"variant": true, "frozen": true, "nopanic": true, "terminates": true, "derived": true, "assumed": true, "view": true, "private": true, "abstractbody": true, "let": true, "in": true, "reads": true,
}

func lexSpec(file string, startLine int, src string) ([]stok, error) {
	var toks []stok
	line := startLine
	i := 0
	for i < len(src) {
		c := src[i]
		switch {
		case c == '\n':
			line++
			i++
		case c == ' ' || c == '\t' || c == '\r':
			i++
		case c == '/' && i+1 < len(src) && src[i+1] == '/':
			for i < len(src) && src[i] != '\n' {
				i++
			}
		case c == '"':
			j := i + 1
			for j < len(src) && src[j] != '"' {
				if src[j] == '\\' {
					j++
				}
				j++
			}
			if j >= len(src) {
				return nil, fmt.Errorf("%s:%d: unterminated string", file, line)
			}
			v, err := strconv.Unquote(src[i : j+1])
			if err != nil {
				return nil, fmt.Errorf("%s:%d: bad string %s", file, line, src[i:j+1])
			}
			toks = append(toks, stok{tStr, v, file, line})
			i = j + 1
		case c >= '0' && c <= '9':
			j := i
			for j < len(src) && (src[j] >= '0' && src[j] <= '9' || src[j] == '_') {
				j++
			}
			toks = append(toks, stok{tInt, strings.ReplaceAll(src[i:j], "_", ""), file, line})
			i = j
		case c == '_' || c == '$' || unicode.IsLetter(rune(c)):
			j := i
			for j < len(src) && (src[j] == '_' || src[j] == '$' || unicode.IsLetter(rune(src[j])) || unicode.IsDigit(rune(src[j]))) {
				j++
			}
			toks = append(toks, stok{tIdent, src[i:j], file, line})
			i = j
		default:
			ops := []string{"<==>", "==>", "::", "==", "!=", "<=", ">=", "&&", "||", "++", ":="}
			matched := false
			for _, op := range ops {
				if strings.HasPrefix(src[i:], op) {
					toks = append(toks, stok{tOp, op, file, line})
					i += len(op)
					matched = true
					break
				}
			}
			if matched {
				continue
			}
			if strings.ContainsRune("()[]{}<>,.:;=!+-*/%&|@#", rune(c)) {
				toks = append(toks, stok{tOp, string(c), file, line})
				i++
				continue
			}
			return nil, fmt.Errorf("%s:%d: unexpected character %q", file, line, c)
		}
	}
	toks = append(toks, stok{tEOF, "", file, line})
	return toks, nil
}

// ---------------------------------------------------------------------------
// AST
// ---------------------------------------------------------------------------

type Expr interface{}

type (
	EIdent struct {
		Name string
		tok  stok
	}
	EInt  struct{ V string }
	EStr  struct{ V string }
	EBool struct{ V bool }
	ENil  struct{}
	EUn   struct {
		Op string
		X  Expr
	}
	EBin struct {
		Op   string
		X, Y Expr
		tok  stok
	}
	ECall struct {
		Fun  string // plain function name (spec function / builtin)
		Recv Expr   // method call on a Go value (getter inlining) when non-nil
		Args []Expr
		tok  stok
	}
	ESel struct {
		X    Expr
		Name string
		tok  stok
	}
	EIndex struct {
		X, I Expr
		tok  stok
	}
	ESlice struct {
		X, Lo, Hi Expr
	}
	EQuant struct {
		Forall bool
		Vars   []Param
		Body   Expr
	}
	ETypeAssert struct {
		X Expr
		T *TypeExpr
	}
	ETypeArg struct{ T *TypeExpr } // a type used as an argument (istype(x, T))
	ELit     struct {              // Name{field: e, ...}
		Name   string
		Fields []string
		Vals   []Expr
		tok    stok
	}
	ELet struct {
		Name string
		Val  Expr
		Body Expr
	}
)

type TypeExpr struct {
	Kind string // "name", "ptr", "slice", "map", "arr"
	Pkg  string // alias
	Name string
	Key  *TypeExpr
	Elem *TypeExpr
}

func (t *TypeExpr) String() string {
	switch t.Kind {
	case "ptr":
		return "*" + t.Elem.String()
	case "slice":
		return "[]" + t.Elem.String()
	case "map":
		return "map[" + t.Key.String() + "]" + t.Elem.String()
	case "arr":
		return "arr[" + t.Key.String() + "]" + t.Elem.String()
	}
	if t.Pkg != "" {
		return t.Pkg + "." + t.Name
	}
	return t.Name
}

type Param struct {
	Name string
	T    *TypeExpr
}

type Clause struct {
	ID   string
	E    Expr
	Src  string
	File string
	Line int
}

type ModItem struct {
	Kind string // "field" (X.Name), "heap" (whole heap of Type.Field), "ghost", "everything", "map" (map contents of expr), "elems" (slice elems of expr), "nothing"
	X    Expr
	Name string
	T    *TypeExpr
	Src  string
}

type Contract struct {
	Key      string // function key within package or full key for externals
	PkgPath  string
	Iface    string // non-empty for interface method contracts
	Method   string
	Params   []string // optional parameter names (externals)
	Results  []string // optional result names
	Requires []Clause
	Ensures  []Clause
	Modifies []ModItem
	HasMod   bool
	LoopInv  map[int][]Clause
	Inline   bool
	Pure     bool
	Trusted  bool
	NoPanic  bool // trusted: callee does not panic (default true for trusted)
	Abstract bool // body not verified (abstracted function), contract assumed => listed as assumption
	Flags    map[string]bool
	Assumed  map[string]bool   // clause ids that are environment assumptions (not proved by implementations)
	Derived  map[string]string // clause id -> lemma by which it follows from the other clauses
	Assumes  []Clause          // preconditions assumed for the body, not checked at call sites
	Uses     []string          // lemmas (proved separately) whose statements are assumed in this function's proof
	Variant  string            // "" or the name of the contract variant this contract belongs to (e.g. "intf")
	File     string
	Line     int
}

type SpecFunc struct {
	Name     string
	Params   []Param
	Ret      *TypeExpr
	Body     Expr // nil => abstract (uninterpreted)
	Rec      bool
	File     string
	Line     int
	Pkg      string
	Imports  map[string]string
	Abstract bool
}

type Axiom struct {
	Name    string
	E       Expr
	Lemma   bool
	File    string
	Line    int
	Imports map[string]string
	Uses    []string // lemma: names of axioms to include ("*" = all)
}

type DataType struct {
	Name    string
	Fields  []Param
	Imports map[string]string
}

type GhostVar struct {
	Name    string
	T       *TypeExpr
	Imports map[string]string
}

// GuardDecl declares how a shared location is protected (lock discipline, C16):
//
//	guarded field alias.T.F by <expr over this>   loads / stores of the field (and operations on the map it holds)
//	guarded global alias.name by <expr>           the same for a package-level variable
//	frozen field alias.T.F                        never written once the object is shared (stores only to fresh objects)
type GuardDecl struct {
	Kind    string // "field" | "global"
	Frozen  bool
	Alias   string
	Type    string
	Name    string
	By      Expr
	Imports map[string]string
	Pkg     string
	File    string
	Line    int
}

type PkgInvariant struct {
	Pkg     string
	Clause  Clause
	Imports map[string]string
}

// ImplBlock: "impl (*T) Iface (recv, idx)" — T's methods are verified against Iface's method
// contracts, the ghost variable named by `view` being read off T's concrete state.
type ImplBlock struct {
	Pkg      string
	Recv     string // "*T" or "T"
	Iface    string
	RecvName string
	IdxName  string
	Requires []Clause
	Invariants []Clause // representation invariants: assumed at entry, proved at every return of every method
	Ghost    string // ghost variable the view defines (indexed [self.pay][idx])
	View     Expr
	ViewSrc  string
	Private  []ModItem // locations only this type touches (its frame)
	Imports  map[string]string
	File     string
	Line     int
}

type SpecFile struct {
	Impls      []*ImplBlock
	Invariants []*PkgInvariant
	Guards     []*GuardDecl
	Imports   map[string]string
	Contracts []*Contract
	Funcs     []*SpecFunc
	Axioms    []*Axiom
	Types     []*DataType
	Ghosts    []*GhostVar
}

// ---------------------------------------------------------------------------
// Parser
// ---------------------------------------------------------------------------

type parser struct {
	toks []stok
	pos  int
	pkg  string // package path the contract file belongs to ("" for gospec)
}

type parseError struct{ msg string }

func (p *parser) fail(f string, a ...interface{}) {
	t := p.peek()
	panic(parseError{fmt.Sprintf("%s:%d: %s (at %q)", t.file, t.line, fmt.Sprintf(f, a...), t.s)})
}

func (p *parser) peek() stok { return p.toks[p.pos] }
func (p *parser) next() stok { t := p.toks[p.pos]; p.pos++; return t }
func (p *parser) isOp(s string) bool {
	t := p.peek()
	return t.k == tOp && t.s == s
}
func (p *parser) isKw(s string) bool {
	t := p.peek()
	return t.k == tIdent && t.s == s
}
func (p *parser) accept(s string) bool {
	t := p.peek()
	if (t.k == tOp || t.k == tIdent) && t.s == s {
		p.pos++
		return true
	}
	return false
}
func (p *parser) expect(s string) {
	if !p.accept(s) {
		p.fail("expected %q", s)
	}
}
func (p *parser) ident() string {
	t := p.next()
	if t.k != tIdent {
		p.pos--
		p.fail("expected identifier")
	}
	return t.s
}

func parseSpecFile(file string, startLine int, src string, pkg string) (sf *SpecFile, err error) {
	toks, err := lexSpec(file, startLine, src)
	if err != nil {
		return nil, err
	}
	return parseSpecTokens(toks, pkg)
}

func parseSpecTokens(toks []stok, pkg string) (sf *SpecFile, err error) {
	defer func() {
		if r := recover(); r != nil {
			if pe, ok := r.(parseError); ok {
				err = fmt.Errorf("CONTRACT-SYNTAX: %s", pe.msg)
				return
			}
			panic(r)
		}
	}()
	p := &parser{toks: toks, pkg: pkg}
	sf = &SpecFile{Imports: map[string]string{}}
	for p.peek().k != tEOF {
		t := p.peek()
		switch {
		case p.accept("import"):
			alias := p.ident()
			path := p.next()
			if path.k != tStr {
				p.fail("expected import path string")
			}
			sf.Imports[alias] = path.s
		case p.isKw("func"), p.isKw("trusted"), p.isKw("interface"):
			c := p.parseContract()
			sf.Contracts = append(sf.Contracts, c)
		case p.accept("spec"):
			p.expect("func")
			f := p.parseSpecFunc(false)
			f.Imports = sf.Imports
			sf.Funcs = append(sf.Funcs, f)
		case p.accept("abstract"):
			p.expect("func")
			f := p.parseSpecFunc(true)
			f.Imports = sf.Imports
			sf.Funcs = append(sf.Funcs, f)
		case p.isKw("axiom"), p.isKw("lemma"):
			lem := p.next().s == "lemma"
			name := p.ident()
			for p.accept("-") { // allow dashes in names
				name += "-" + p.ident()
			}
			ax := &Axiom{Name: name, Lemma: lem, File: t.file, Line: t.line, Imports: sf.Imports}
			if p.accept("uses") {
				for {
					if p.accept("*") {
						ax.Uses = append(ax.Uses, "*")
					} else {
						n := p.ident()
						for p.accept("-") {
							n += "-" + p.ident()
						}
						ax.Uses = append(ax.Uses, n)
					}
					if !p.accept(",") {
						break
					}
				}
			}
			p.expect(":")
			ax.E = p.parseExpr()
			sf.Axioms = append(sf.Axioms, ax)
		case p.accept("impl"):
			ib := &ImplBlock{Pkg: p.pkg, Imports: sf.Imports, File: t.file, Line: t.line}
			p.expect("(")
			if p.accept("*") {
				ib.Recv = "*"
			}
			ib.Recv += p.ident()
			p.expect(")")
			ib.Iface = p.qualName()
			p.expect("(")
			ib.RecvName = p.ident()
			p.expect(",")
			ib.IdxName = p.ident()
			p.expect(")")
			for {
				kw := p.peek()
				if p.accept("requires") {
					ib.Requires = append(ib.Requires, p.parseClause(kw, fmt.Sprintf("req%d", len(ib.Requires)+1)))
				} else if p.accept("invariant") {
					ib.Invariants = append(ib.Invariants, p.parseClause(kw, fmt.Sprintf("repinv%d", len(ib.Invariants)+1)))
				} else if p.accept("view") {
					ib.Ghost = p.ident()
					p.expect(":")
					start := p.pos
					ib.View = p.parseExpr()
					var sb strings.Builder
					for i := start; i < p.pos; i++ {
						sb.WriteString(p.toks[i].s + " ")
					}
					ib.ViewSrc = sb.String()
				} else if p.accept("private") {
					for {
						ib.Private = append(ib.Private, p.parseModItem())
						if !p.accept(",") {
							break
						}
					}
				} else {
					break
				}
			}
			sf.Impls = append(sf.Impls, ib)
		case p.isKw("guarded"), p.isKw("frozen"):
			kw := p.next()
			g := &GuardDecl{Frozen: kw.s == "frozen", Imports: sf.Imports, Pkg: p.pkg, File: kw.file, Line: kw.line}
			g.Kind = p.ident()
			if g.Kind != "field" && g.Kind != "global" {
				p.fail("guarded/frozen: expected field or global")
			}
			parts := []string{p.ident()}
			for p.accept(".") {
				if p.accept("*") {
					parts = append(parts, "*")
				} else {
					parts = append(parts, p.ident())
				}
			}
			want := 2
			if g.Kind == "global" {
				want = 1
			}
			if len(parts) == want+1 {
				g.Alias = parts[0]
				parts = parts[1:]
			}
			if len(parts) != want {
				p.fail("guarded/frozen: malformed location")
			}
			if g.Kind == "field" {
				g.Type, g.Name = parts[0], parts[1]
			} else {
				g.Name = parts[0]
			}
			if !g.Frozen {
				p.expect("by")
				g.By = p.parseExpr()
			}
			sf.Guards = append(sf.Guards, g)
		case p.isKw("invariant"):
			kw := p.next()
			cl := p.parseClause(kw, fmt.Sprintf("inv%d", len(sf.Invariants)+1))
			sf.Invariants = append(sf.Invariants, &PkgInvariant{Pkg: p.pkg, Clause: cl, Imports: sf.Imports})
		case p.accept("type"):
			name := p.ident()
			p.expect("struct")
			p.expect("{")
			dt := &DataType{Name: name, Imports: sf.Imports}
			for !p.accept("}") {
				fn := p.ident()
				ft := p.parseType()
				dt.Fields = append(dt.Fields, Param{fn, ft})
				p.accept(";")
				p.accept(",")
			}
			sf.Types = append(sf.Types, dt)
		case p.accept("ghost"):
			p.accept("var")
			name := p.ident()
			ty := p.parseType()
			sf.Ghosts = append(sf.Ghosts, &GhostVar{Name: name, T: ty, Imports: sf.Imports})
		default:
			p.fail("unexpected token at top level")
		}
	}
	return sf, nil
}

// qualName parses a possibly path-qualified name for trusted externals:
//
//	strings.Index | net/url.Parse | (*net/url.URL).Port | github.com/x/y.Iface.Method
//
// Returned verbatim as a string.
func (p *parser) qualName() string {
	var b strings.Builder
	depth := 0
	for {
		t := p.peek()
		if t.k == tEOF {
			break
		}
		if t.k == tOp && t.s == "(" {
			// start of receiver "(" only allowed at beginning; otherwise it's the param list
			if b.Len() == 0 {
				depth++
				b.WriteString("(")
				p.next()
				continue
			}
			break
		}
		if t.k == tOp && t.s == ")" {
			if depth > 0 {
				depth--
				b.WriteString(")")
				p.next()
				continue
			}
			break
		}
		if t.k == tIdent && reserved[t.s] && depth == 0 && b.Len() > 0 && !strings.HasSuffix(b.String(), ".") && !strings.HasSuffix(b.String(), "/") {
			break
		}
		if t.k == tIdent || t.k == tInt || (t.k == tOp && (t.s == "." || t.s == "/" || t.s == "*" || t.s == "-")) {
			// an identifier directly following an identifier ends the name
			if (t.k == tIdent) && b.Len() > 0 {
				last := b.String()[b.Len()-1]
				if last != '.' && last != '/' && last != '*' && last != '(' && last != '-' {
					break
				}
			}
			b.WriteString(t.s)
			p.next()
			continue
		}
		break
	}
	return b.String()
}

func (p *parser) parseContract() *Contract {
	t := p.peek()
	c := &Contract{LoopInv: map[int][]Clause{}, File: t.file, Line: t.line, PkgPath: p.pkg, Flags: map[string]bool{}}
	if p.accept("trusted") {
		c.Trusted = true
		c.NoPanic = true
	}
	if p.accept("interface") {
		c.Iface = p.qualName()
		p.expect("method")
		c.Method = p.ident()
		c.Key = c.Iface + "." + c.Method
	} else {
		p.expect("func")
		c.Key = p.qualName()
	}
	// optional parameter names
	if p.accept("(") {
		for !p.accept(")") {
			c.Params = append(c.Params, p.ident())
			p.accept(",")
		}
		// optional result names
		if p.accept("(") {
			for !p.accept(")") {
				c.Results = append(c.Results, p.ident())
				p.accept(",")
			}
		} else if p.peek().k == tIdent && !reserved[p.peek().s] {
			c.Results = append(c.Results, p.ident())
		}
	}
	for {
		t := p.peek()
		switch {
		case p.accept("requires"):
			c.Requires = append(c.Requires, p.parseClause(t, fmt.Sprintf("req%d", len(c.Requires)+1)))
		case p.accept("assumes"):
			// assumes id: e — a precondition the body is verified under but that callers are NOT asked
			// to establish (an environment assumption, listed in the evidence of every run using it)
			c.Assumes = append(c.Assumes, p.parseClause(t, fmt.Sprintf("asm%d", len(c.Assumes)+1)))
		case p.accept("ensures"):
			c.Ensures = append(c.Ensures, p.parseClause(t, fmt.Sprintf("ens%d", len(c.Ensures)+1)))
		case p.accept("modifies"):
			c.HasMod = true
			for {
				c.Modifies = append(c.Modifies, p.parseModItem())
				if !p.accept(",") {
					break
				}
			}
		case p.accept("loop"):
			n := p.next()
			if n.k != tInt {
				p.fail("expected loop ordinal")
			}
			k, _ := strconv.Atoi(n.s)
			p.expect("invariant")
			c.LoopInv[k] = append(c.LoopInv[k], p.parseClause(t, fmt.Sprintf("inv%d", len(c.LoopInv[k])+1)))
		case p.accept("variant"):
			// variant <name>: this contract replaces the function's ordinary contract when the
			// property being checked asks for that variant (e.g. the interference reading of C09)
			c.Variant = p.ident()
		case p.accept("uses"):
			// uses <lemma>: the lemma (discharged as its own obligation) may be used in this function's proof
			ln := p.ident()
			for p.accept("-") {
				ln += "-" + p.ident()
			}
			c.Uses = append(c.Uses, ln)
		case p.accept("derived"):
			// derived <clause id> by <lemma>: the clause follows from the other clauses by the lemma;
			// implementations need not prove it separately
			id := p.next().s
			p.expect("by")
			ln := p.ident()
			for p.accept("-") {
				ln += "-" + p.ident()
			}
			if c.Derived == nil {
				c.Derived = map[string]string{}
			}
			c.Derived[id] = ln
		case p.accept("assumed"):
			// assumed <clause id>: an environment assumption stated as a clause of an interface
			// contract (e.g. A-FRESH); implementations are not asked to prove it, it is listed
			id := p.next().s
			if c.Assumed == nil {
				c.Assumed = map[string]bool{}
			}
			c.Assumed[id] = true
		case p.accept("inline"):
			c.Inline = true
		case p.accept("pure"):
			c.Pure = true
		case p.accept("abstractbody"):
			c.Abstract = true
		case p.accept("unchecked"), p.accept("lockfree"), p.accept("terminates"), p.accept("nopanic"):
			c.Flags[t.s] = true
		case p.accept("#"):
			// flag: #name
			c.Flags[p.ident()] = true
		default:
			return c
		}
	}
}

func (p *parser) parseClause(kw stok, defID string) Clause {
	cl := Clause{ID: defID, File: kw.file, Line: kw.line}
	// optional "id:" prefix — an identifier followed by ':' (but not '::')
	if p.peek().k == tIdent && p.toks[p.pos+1].k == tOp && p.toks[p.pos+1].s == ":" {
		cl.ID = p.next().s
		p.expect(":")
	}
	start := p.pos
	cl.E = p.parseExpr()
	var sb strings.Builder
	for i := start; i < p.pos; i++ {
		if i > start {
			sb.WriteByte(' ')
		}
		if p.toks[i].k == tStr {
			sb.WriteString(strconv.Quote(p.toks[i].s))
		} else {
			sb.WriteString(p.toks[i].s)
		}
	}
	cl.Src = sb.String()
	return cl
}

func (p *parser) parseModItem() ModItem {
	start := p.pos
	mi := ModItem{}
	switch {
	case p.accept("everything"):
		mi.Kind = "everything"
	case p.accept("nothing"):
		mi.Kind = "nothing"
	case p.accept("ghost"):
		mi.Kind = "ghost"
		mi.Name = p.ident()
		if p.accept("[") {
			// one entry of a ghost array indexed by object reference
			mi.Kind = "ghostelem"
			mi.X = p.parseExpr()
			p.expect("]")
		}
	case p.accept("heap"):
		mi.Kind = "heap"
		// heap [alias.]Type.Field
		parts := []string{p.ident()}
		for p.accept(".") {
			parts = append(parts, p.ident())
		}
		switch len(parts) {
		case 2:
			mi.T = &TypeExpr{Kind: "name", Name: parts[0]}
			mi.Name = parts[1]
		case 3:
			mi.T = &TypeExpr{Kind: "name", Pkg: parts[0], Name: parts[1]}
			mi.Name = parts[2]
		default:
			p.fail("heap item must be [alias.]Type.Field")
		}
	case p.accept("mapof"):
		mi.Kind = "map"
		p.expect("(")
		mi.X = p.parseExpr()
		p.expect(")")
	case p.accept("above"):
		// every object allocated after the given watermark (refs > expr)
		mi.Kind = "above"
		p.expect("(")
		mi.X = p.parseExpr()
		p.expect(")")
	case p.accept("cellof"):
		mi.Kind = "cell"
		p.expect("(")
		mi.X = p.parseExpr()
		p.expect(")")
	case p.accept("elemsof"):
		mi.Kind = "elems"
		p.expect("(")
		mi.X = p.parseExpr()
		p.expect(")")
	case p.accept("fields"):
		// fields(x): every field of the object x points to
		mi.Kind = "object"
		p.expect("(")
		mi.X = p.parseExpr()
		p.expect(")")
	default:
		e := p.parsePostfix()
		sel, ok := e.(*ESel)
		if !ok {
			p.fail("modifies item must be x.Field, heap T.Field, ghost g, mapof(e), elemsof(e), fields(e) or everything")
		}
		mi.Kind = "field"
		mi.X = sel.X
		mi.Name = sel.Name
	}
	var sb strings.Builder
	for i := start; i < p.pos; i++ {
		sb.WriteString(p.toks[i].s)
	}
	mi.Src = sb.String()
	return mi
}

func (p *parser) parseSpecFunc(abstract bool) *SpecFunc {
	t := p.peek()
	f := &SpecFunc{File: t.file, Line: t.line, Abstract: abstract}
	f.Name = p.ident()
	p.expect("(")
	for !p.accept(")") {
		// name[, name] type
		names := []string{p.ident()}
		for p.accept(",") {
			names = append(names, p.ident())
		}
		ty := p.parseType()
		for _, n := range names {
			f.Params = append(f.Params, Param{n, ty})
		}
		p.accept(",")
	}
	f.Ret = p.parseType()
	if !abstract {
		p.expect("=")
		f.Body = p.parseExpr()
	}
	return f
}

func (p *parser) parseType() *TypeExpr {
	switch {
	case p.accept("*"):
		return &TypeExpr{Kind: "ptr", Elem: p.parseType()}
	case p.accept("["):
		p.expect("]")
		return &TypeExpr{Kind: "slice", Elem: p.parseType()}
	case p.accept("map"):
		p.expect("[")
		k := p.parseType()
		p.expect("]")
		return &TypeExpr{Kind: "map", Key: k, Elem: p.parseType()}
	case p.accept("arr"):
		p.expect("[")
		k := p.parseType()
		p.expect("]")
		return &TypeExpr{Kind: "arr", Key: k, Elem: p.parseType()}
	}
	name := p.ident()
	if p.isOp(".") && p.toks[p.pos+1].k == tIdent {
		p.next()
		return &TypeExpr{Kind: "name", Pkg: name, Name: p.ident()}
	}
	return &TypeExpr{Kind: "name", Name: name}
}

// expression precedence climbing
func (p *parser) parseExpr() Expr { return p.parseIff() }

func (p *parser) parseIff() Expr {
	x := p.parseImp()
	for p.isOp("<==>") {
		t := p.next()
		y := p.parseImp()
		x = &EBin{Op: "<==>", X: x, Y: y, tok: t}
	}
	return x
}

func (p *parser) parseImp() Expr {
	x := p.parseOr()
	if p.isOp("==>") {
		t := p.next()
		y := p.parseImp()
		return &EBin{Op: "==>", X: x, Y: y, tok: t}
	}
	return x
}

func (p *parser) parseOr() Expr {
	x := p.parseAnd()
	for p.isOp("||") {
		t := p.next()
		y := p.parseAnd()
		x = &EBin{Op: "||", X: x, Y: y, tok: t}
	}
	return x
}

func (p *parser) parseAnd() Expr {
	x := p.parseCmp()
	for p.isOp("&&") {
		t := p.next()
		y := p.parseCmp()
		x = &EBin{Op: "&&", X: x, Y: y, tok: t}
	}
	return x
}

func (p *parser) parseCmp() Expr {
	x := p.parseAdd()
	for {
		t := p.peek()
		if t.k == tOp && (t.s == "==" || t.s == "!=" || t.s == "<" || t.s == "<=" || t.s == ">" || t.s == ">=") {
			p.next()
			y := p.parseAdd()
			x = &EBin{Op: t.s, X: x, Y: y, tok: t}
			continue
		}
		return x
	}
}

func (p *parser) parseAdd() Expr {
	x := p.parseMul()
	for {
		t := p.peek()
		if t.k == tOp && (t.s == "+" || t.s == "-" || t.s == "++") {
			p.next()
			y := p.parseMul()
			x = &EBin{Op: t.s, X: x, Y: y, tok: t}
			continue
		}
		return x
	}
}

func (p *parser) parseMul() Expr {
	x := p.parseUnary()
	for {
		t := p.peek()
		if t.k == tOp && (t.s == "*" || t.s == "/" || t.s == "%") {
			p.next()
			y := p.parseUnary()
			x = &EBin{Op: t.s, X: x, Y: y, tok: t}
			continue
		}
		return x
	}
}

func (p *parser) parseUnary() Expr {
	if p.accept("!") {
		return &EUn{Op: "!", X: p.parseUnary()}
	}
	if p.accept("-") {
		return &EUn{Op: "-", X: p.parseUnary()}
	}
	return p.parsePostfix()
}

func (p *parser) parsePostfix() Expr {
	x := p.parsePrimary()
	for {
		switch {
		case p.isOp("."):
			t := p.next()
			if p.accept("(") {
				ty := p.parseType()
				p.expect(")")
				x = &ETypeAssert{X: x, T: ty}
				continue
			}
			name := p.ident()
			if p.isOp("(") {
				// method call on a Go value
				p.next()
				var args []Expr
				for !p.accept(")") {
					args = append(args, p.parseExpr())
					p.accept(",")
				}
				x = &ECall{Fun: name, Recv: x, Args: args, tok: t}
				continue
			}
			x = &ESel{X: x, Name: name, tok: t}
		case p.isOp("["):
			t := p.next()
			if p.accept(":") {
				hi := p.parseExpr()
				p.expect("]")
				x = &ESlice{X: x, Hi: hi}
				continue
			}
			i := p.parseExpr()
			if p.accept(":") {
				var hi Expr
				if !p.isOp("]") {
					hi = p.parseExpr()
				}
				p.expect("]")
				x = &ESlice{X: x, Lo: i, Hi: hi}
				continue
			}
			p.expect("]")
			x = &EIndex{X: x, I: i, tok: t}
		default:
			return x
		}
	}
}

func (p *parser) parsePrimary() Expr {
	t := p.next()
	switch t.k {
	case tInt:
		return &EInt{t.s}
	case tStr:
		return &EStr{t.s}
	case tOp:
		if t.s == "(" {
			e := p.parseExpr()
			p.expect(")")
			return e
		}
		if t.s == "*" || t.s == "[" {
			// a type argument such as *pkg.T or []T
			p.pos--
			return &ETypeArg{T: p.parseType()}
		}
	case tIdent:
		if t.s == "map" && p.pos < len(p.toks) && p.toks[p.pos].k == tOp && p.toks[p.pos].s == "[" {
			p.pos--
			return &ETypeArg{T: p.parseType()}
		}
		switch t.s {
		case "true":
			return &EBool{true}
		case "false":
			return &EBool{false}
		case "nil":
			return &ENil{}
		case "forall", "exists":
			q := &EQuant{Forall: t.s == "forall"}
			for {
				names := []string{p.ident()}
				for p.accept(",") {
					names = append(names, p.ident())
				}
				ty := p.parseType()
				for _, n := range names {
					q.Vars = append(q.Vars, Param{n, ty})
				}
				if p.accept("::") {
					break
				}
				p.accept(",")
			}
			q.Body = p.parseExpr()
			return q
		case "let":
			name := p.ident()
			p.expect("=")
			v := p.parseExpr()
			p.expect("in")
			body := p.parseExpr()
			return &ELet{Name: name, Val: v, Body: body}
		}
		if reserved[t.s] {
			p.pos--
			p.fail("unexpected keyword in expression")
		}
		if p.isOp("(") {
			p.next()
			var args []Expr
			for !p.accept(")") {
				args = append(args, p.parseExpr())
				p.accept(",")
			}
			return &ECall{Fun: t.s, Args: args, tok: t}
		}
		// datatype literal Name{f: e, ...} — only when '{' follows and then ident ':' or '}'
		if p.isOp("{") && (p.toks[p.pos+1].k == tOp && p.toks[p.pos+1].s == "}" ||
			p.toks[p.pos+1].k == tIdent && p.toks[p.pos+2].k == tOp && p.toks[p.pos+2].s == ":") {
			p.next()
			lit := &ELit{Name: t.s, tok: t}
			for !p.accept("}") {
				lit.Fields = append(lit.Fields, p.ident())
				p.expect(":")
				lit.Vals = append(lit.Vals, p.parseExpr())
				p.accept(",")
			}
			return lit
		}
		// alias.Name used as a type argument is handled by elaboration of ESel on unknown ident
		return &EIdent{Name: t.s, tok: t}
	}
	p.pos--
	p.fail("unexpected token in expression")
	return nil
}
