package main

import (
	"fmt"
	"go/types"
	"sort"
	"strings"

	"golang.org/x/tools/go/ssa"
)

// Val is a symbolic value of the executor.
type Val struct {
	T     string // SMT term (valid unless Addr/Tuple/only-closure)
	Ty    *STy
	Addr  *Addr    // symbolic address (result of FieldAddr/IndexAddr/Alloc of a non-struct cell)
	Tuple []Val    // multi-value
	Clo   *Closure // statically known function value
	Guard *GuardTag // lock discipline: the map value was loaded from a guarded location
}

// GuardTag: provenance of a map value loaded from a guarded field / global.
type GuardTag struct {
	Lock string // SMT term of the lock that must be held while the map is used ("" for frozen)
	Obj  string // owner object ("" for globals)
	What string // location name for the obligation
	Decl *GuardDecl
	Elem bool // the tagged value is an object read out of the guarded map (not the map itself)
}

// Addr is a symbolic memory location.
type Addr struct {
	Heap string // heap variable name
	Obj  string // object ref (field / cell heaps) or base ref (elem heaps)
	Idx  string // element index ("" unless elem heap)
	Ty   *STy   // type of the value stored there
	// for struct-typed locations embedded in a parent (field of struct type): the location is
	// itself an object whose ref is Sub
	Sub string
}

type Closure struct {
	Fn       *ssa.Function
	Bindings []Val
}

// State: path condition (reachability literal) + current version of every heap / ghost variable.
type State struct {
	Reach string
	Vars  map[string]string
	Epoch int
	PH    *paramHeaps // non-nil while elaborating a spec function body: heaps are parameters
}

func (s *State) clone() *State {
	n := &State{Reach: s.Reach, Vars: make(map[string]string, len(s.Vars)), Epoch: s.Epoch, PH: s.PH}
	for k, v := range s.Vars {
		n.Vars[k] = v
	}
	return n
}

type epochDef struct {
	conds  []string
	states []*State
	// frame epoch (after a call that may allocate): every heap agrees with prev on the objects that
	// existed before the call (refs <= oldTop); what the callee did to objects it allocated is unknown
	frame  bool
	prev   *State
	oldTop string
	newTop string
}

// Obligation: one verification condition.
type Obligation struct {
	Name    string // full name <func>:<kind>:<what>#k
	Func    string
	Kind    string
	What    string
	Goal    string // SMT Bool term; VC is prefix => goal
	Prefix  int    // number of script lines that precede it
	Src     string // contract clause text or instruction description
	Pos     string // informational source position (not part of the name)
	Result  string // unsat (discharged) / sat / unknown / timeout
	Solver  string
	TimeS   float64
	Script  *Script
	Model   string
	Output  string
	Cover   bool // cover obligation: expected SAT
	Inlined string
	Extra   []string // extra assertions placed before the goal (e.g. bounded-instance restrictions)
	// discriminators of known findings (finding id -> SMT term over the entry state), shared per function
	ExceptTerms map[string]string
	Exec        *Exec
	RetVals     []Val // post obligations: the values returned on this path
}

const topVar = "$top"

// heap name helpers ----------------------------------------------------------

func fieldHeapName(structT types.Type, field string) string {
	return "F." + mangle(types.TypeString(structT, nil)) + "." + field
}

// heapKey: heaps of non-field locations are shared by all locations of the same kind of value;
// references get their own heaps ("Ref") so that their type invariant (0 <= v <= top) can be stated.
func heapKey(t *STy) string {
	switch t.K {
	case KRef, KMap, KFunc:
		return "Ref"
	case KTime:
		return "Time"
	}
	return sortKey(t.Sort())
}

func cellHeapName(t *STy) string { return "C." + heapKey(t) }
func elemHeapName(t *STy) string { return "E." + heapKey(t) }
func mapPHeapName(k, v *STy) string  { return "MP." + heapKey(k) + "." + heapKey(v) }
func mapVHeapName(k, v *STy) string  { return "MV." + heapKey(k) + "." + heapKey(v) }
func mapLHeapName() string             { return "ML" }

// Exec is the verification-condition generator for one function under contract.
type Exec struct {
	P *Program
	W *World
	S *Script

	heapSort map[string]string
	mapKeySort map[string]string // map value heaps: SMT sort of the key
	mapTypeIDs map[string]int    // Go map type -> tag (mapTypeTag)
	mapTagged  map[string]bool   // map terms already tagged in this script
	heapGoTy map[string]types.Type // field heaps: Go type of the field (for quantified type invariants)
	epochTop map[int]string
	epochs   map[int]*epochDef
	epochMem map[string]string
	nextEp   int

	Obls        []*Obligation
	oblCount    map[string]int
	Assumptions map[string]bool // trusted contracts / unmodelled calls / axioms used
	Abstracted  []string        // constructs abstracted by havoc
	FnName      string          // display name of the function under verification
	depth       int
	inlineStack []string
	specFnDone  map[string]*specFnInfo
	axiomsDone  map[string]bool
	curFn       *ssa.Function
	notes       []string
	lockHeld    string // name of ghost var for lock set
	simplePure  map[*ssa.Function]int
	inlinable   map[*ssa.Function]bool
	entry       *State
	boxDecl     map[string]bool
	top         topFrame
	exceptTerms map[string]string
	subAlias    map[string]string // name given to a sub-object address -> its defining term
	curTop      *ssa.Function
	refine      *refineCtx // non-nil while verifying an implementation against an interface contract
	inSpec      int // > 0 while symbolically executing Go code inside a spec expression: no definitions, no assumptions
	boundK      int // > 0: bounded-instance mode for counter-model search (integer quantifiers expanded)
	topArgs     []Val
	tagTypes    []types.Type
	mapKeyCands map[string][]string
	topRets     []retInfo
	allAllocs   map[string]bool
}

type specFnInfo struct {
	heaps []string // heap parameter names in order
	ret   *STy
	ptys  []*STy
	busy  bool
	rec   bool
}

func newExec(p *Program, w *World) *Exec {
	e := &Exec{P: p, W: w, S: newScript(), heapSort: map[string]string{}, heapGoTy: map[string]types.Type{}, mapKeySort: map[string]string{}, epochs: map[int]*epochDef{}, epochTop: map[int]string{}, epochMem: map[string]string{},
		oblCount: map[string]int{}, Assumptions: map[string]bool{}, specFnDone: map[string]*specFnInfo{}, axiomsDone: map[string]bool{},
		simplePure: map[*ssa.Function]int{}, inlinable: map[*ssa.Function]bool{}, boxDecl: map[string]bool{}, allAllocs: map[string]bool{}, exceptTerms: map[string]string{}, subAlias: map[string]string{}, mapKeyCands: map[string][]string{}}
	e.heapSort[topVar] = "Int"
	return e
}

func (e *Exec) regHeap(name, sort string) {
	if old, ok := e.heapSort[name]; ok && old != sort {
		panic(fmt.Sprintf("heap %s registered with sorts %s and %s", name, old, sort))
	}
	e.heapSort[name] = sort
}

// get returns the current SMT term for heap/ghost variable name in state st.
func (e *Exec) get(st *State, name string) string {
	if v, ok := st.Vars[name]; ok {
		return v
	}
	if st.PH != nil {
		if _, ok := e.heapSort[name]; !ok {
			panic("unregistered heap " + name)
		}
		st.PH.used[name] = true
		return sym("h!" + name)
	}
	return e.epochVal(st.Epoch, name)
}

func (e *Exec) epochVal(ep int, name string) string {
	key := fmt.Sprintf("%s@e%d", name, ep)
	if ep == 0 {
		key = name
	}
	if v, ok := e.epochMem[key]; ok {
		return v
	}
	sort, ok := e.heapSort[name]
	if !ok {
		panic("unregistered heap " + name)
	}
	def := e.epochs[ep]
	var v string
	if def != nil && def.frame {
		prevTerm := e.get(def.prev, name)
		if !isObjectHeap(name) {
			e.epochMem[key] = prevTerm
			return prevTerm
		}
		v = e.S.declare(key, sort)
		e.S.assume(fmt.Sprintf("(forall ((o Int)) (! (=> (<= o %s) (= (select %s o) (select %s o))) :pattern ((select %s o))))", def.oldTop, v, prevTerm, v))
		e.heapInv(name, v, def.newTop)
		e.epochMem[key] = v
		return v
	}
	if def == nil {
		v = e.S.declare(key, sort)
		if name != topVar {
			top, ok := e.epochTop[ep]
			if !ok {
				top = "$top"
			}
			e.heapInv(name, v, top)
		}
	} else {
		var terms []string
		same := true
		for i, s := range def.states {
			terms = append(terms, e.get(s, name))
			if i > 0 && terms[i] != terms[0] {
				same = false
			}
		}
		if same {
			v = terms[0]
		} else {
			body := terms[len(terms)-1]
			for i := len(terms) - 2; i >= 0; i-- {
				body = ite(def.conds[i], terms[i], body)
			}
			v = e.defOrInline(key, sort, body)
		}
	}
	e.epochMem[key] = v
	return v
}

func (e *Exec) set(st *State, name, term string) { st.Vars[name] = term }

// setDef stores a new version of a heap as a named definition to keep terms small.
func (e *Exec) setDef(st *State, name, term string) {
	n := e.S.define(e.S.freshName(name), e.heapSort[name], term)
	st.Vars[name] = n
}

// havoc gives the heap a fresh unconstrained version.
func (e *Exec) havoc(st *State, name string) string {
	n := e.S.declare(e.S.freshName(name), e.heapSort[name])
	st.Vars[name] = n
	if name != topVar {
		e.heapInv(name, n, e.get(st, topVar))
	}
	return n
}

// heapInv: quantified type invariant of a freshly introduced (unconstrained) heap version: every
// location of an object that exists (ref <= top) holds a well-typed Go value. Indices above the
// watermark are deliberately left unconstrained: they stand for objects not yet allocated, whose
// contents a callee's contract may later describe (so unlisted heaps need no re-versioning when a
// callee allocates: nothing was ever assumed or read at those indices).
// (was: every location holds a well-typed Go value (slice header shape, one-of wrappers, references that
// exist, i.e. lie below the allocation watermark `top` of the state the heap belongs to).
// Assumed, never proved: it is what "well-typed Go heap" means in this memory model.
func (e *Exec) heapInv(name, term, top string) {
	sliceInv := func(sel string) string {
		return and(app(">=", app("sl-len", sel), "0"), eq(app("sl-off", sel), "0"), app(">=", app("sl-base", sel), "0"),
			app("<=", app("sl-base", sel), top), implies(eq(app("sl-base", sel), "0"), eq(app("sl-len", sel), "0")))
	}
	refInv := func(sel string) string { return and(app(">=", sel, "0"), app("<=", sel, top)) }
	switch {
	case strings.HasPrefix(name, "F."):
		gt, ok := e.heapGoTy[name]
		if !ok {
			return
		}
		ty := tyOfGo(gt)
		sel := app("select", term, "o")
		var inv string
		switch {
		case ty.K == KSlice:
			inv = sliceInv(sel)
		case ty.K == KRef || ty.K == KMap:
			inv = refInv(sel)
		case ty.K == KIface && e.sealedTags(gt) != nil:
			alts := []string{eq(app("if-tag", sel), "0")}
			for _, t := range e.sealedTags(gt) {
				alts = append(alts, and(eq(app("if-tag", sel), smtInt(int64(e.S.tagOf(t)))), app(">", app("if-pay", sel), "0"), app("<=", app("if-pay", sel), top)))
			}
			inv = or(alts...)
		default:
			return
		}
		e.S.assume(fmt.Sprintf("(forall ((o Int)) (! (=> (<= o %s) %s) :pattern (%s)))", top, inv, sel))
	case name == "C.Ref" || name == "C.Slice":
		sel := app("select", term, "o")
		inv := refInv(sel)
		if name == "C.Slice" {
			inv = sliceInv(sel)
		}
		e.S.assume(fmt.Sprintf("(forall ((o Int)) (! (=> (<= o %s) %s) :pattern (%s)))", top, inv, sel))
	case strings.HasPrefix(name, "MV.") && (strings.HasSuffix(name, ".Ref") || strings.HasSuffix(name, ".Slice")):
		ks := e.mapKeySort[name]
		if ks == "" {
			return
		}
		sel := app("select", app("select", term, "o"), "k")
		inv := refInv(sel)
		if strings.HasSuffix(name, ".Slice") {
			inv = sliceInv(sel)
		}
		e.S.assume(fmt.Sprintf("(forall ((o Int) (k %s)) (! (=> (<= o %s) %s) :pattern (%s)))", ks, top, inv, sel))
	case name == "E.Ref" || name == "E.Slice":
		sel := app("select", app("select", term, "o"), "i")
		inv := refInv(sel)
		if name == "E.Slice" {
			inv = sliceInv(sel)
		}
		e.S.assume(fmt.Sprintf("(forall ((o Int) (i Int)) (! (=> (<= o %s) %s) :pattern (%s)))", top, inv, sel))
	}
}

// havocAll starts a fresh epoch: every heap (known or not yet referenced) becomes unknown.
// Ghost variables listed in keep are preserved.
func (e *Exec) havocAll(st *State, keep func(name string) bool) {
	kept := map[string]string{}
	for name := range e.heapSort {
		if keep != nil && keep(name) {
			kept[name] = e.get(st, name)
		}
	}
	oldTop := e.get(st, topVar)
	e.nextEp++
	st.Epoch = e.nextEp
	st.Vars = map[string]string{}
	for k, v := range kept {
		st.Vars[k] = v
	}
	nt := e.havoc(st, topVar)
	e.S.assume(fmt.Sprintf("(>= %s %s)", nt, oldTop))
	e.epochTop[st.Epoch] = nt
}

// isObjectHeap: heaps indexed by object reference (fields, cells, elements, maps); ghost variables
// and iteration ghosts are not affected by allocation.
func isObjectHeap(name string) bool {
	return strings.HasPrefix(name, "F.") || strings.HasPrefix(name, "C.") || strings.HasPrefix(name, "E.") || strings.HasPrefix(name, "M")
}

// frameEpoch: the state after a call that may have allocated objects. Ghost variables keep their
// current versions; every object heap gets (lazily) a new version that agrees with the old one
// on the objects that existed before the call.
func (e *Exec) frameEpoch(st *State) {
	prev := st.clone()
	oldTop := e.get(st, topVar)
	e.nextEp++
	ep := e.nextEp
	nv := map[string]string{}
	for k, v := range st.Vars {
		if !isObjectHeap(k) {
			nv[k] = v
		}
	}
	// ghost variables not yet materialised in Vars resolve through prev (see epochVal)
	st.Epoch = ep
	st.Vars = nv
	nt := e.S.declare(e.S.freshName(topVar), "Int")
	e.S.assume(fmt.Sprintf("(>= %s %s)", nt, oldTop))
	st.Vars[topVar] = nt
	e.epochs[ep] = &epochDef{frame: true, prev: prev, oldTop: oldTop, newTop: nt}
	e.epochTop[ep] = nt
}

// frameEpochAbove: every object heap keeps its content on refs <= mark and becomes unknown above it.
func (e *Exec) frameEpochAbove(st *State, mark string) {
	prev := st.clone()
	curTop := e.get(st, topVar)
	e.nextEp++
	ep := e.nextEp
	nv := map[string]string{}
	for k, v := range st.Vars {
		if !isObjectHeap(k) {
			nv[k] = v
		}
	}
	st.Epoch = ep
	st.Vars = nv
	e.epochs[ep] = &epochDef{frame: true, prev: prev, oldTop: mark, newTop: curTop}
	e.epochTop[ep] = curTop
}

// reassertHeapInvs restates the type invariant of every registered heap for the state's current
// watermark (sound: all objects that exist hold references to objects that exist).
func (e *Exec) reassertHeapInvs(st *State) {
	if e.inSpec > 0 {
		return
	}
	top := e.get(st, topVar)
	for _, name := range sortedKeys(e.heapSort) {
		if !isObjectHeap(name) {
			continue
		}
		if _, seen := st.Vars[name]; !seen {
			if _, known := e.epochMem[fmt.Sprintf("%s@e%d", name, st.Epoch)]; !known && !(st.Epoch == 0 && e.S.declared[name]) {
				continue // never referenced so far: nothing to restate
			}
		}
		e.heapInv(name, e.get(st, name), top)
	}
}

func (e *Exec) bumpTop(st *State) {
	oldTop := e.get(st, topVar)
	nt := e.havoc(st, topVar)
	e.S.assume(fmt.Sprintf("(>= %s %s)", nt, oldTop))
}

// merge joins predecessor states under their edge conditions.
func (e *Exec) merge(conds []string, states []*State) *State {
	if len(states) == 1 {
		n := states[0].clone()
		n.Reach = conds[0]
		return n
	}
	n := &State{Reach: or(conds...), Vars: map[string]string{}, PH: states[0].PH}
	sameEpoch := true
	for _, s := range states[1:] {
		if s.Epoch != states[0].Epoch {
			sameEpoch = false
		}
	}
	if sameEpoch {
		n.Epoch = states[0].Epoch
	} else {
		e.nextEp++
		n.Epoch = e.nextEp
		e.epochs[n.Epoch] = &epochDef{conds: conds, states: states}
	}
	keys := map[string]bool{}
	for _, s := range states {
		for k := range s.Vars {
			keys[k] = true
		}
	}
	var ks []string
	for k := range keys {
		ks = append(ks, k)
	}
	sort.Strings(ks)
	for _, k := range ks {
		var terms []string
		same := true
		for i, s := range states {
			terms = append(terms, e.get(s, k))
			if i > 0 && terms[i] != terms[0] {
				same = false
			}
		}
		if same {
			n.Vars[k] = terms[0]
			continue
		}
		body := terms[len(terms)-1]
		for i := len(terms) - 2; i >= 0; i-- {
			body = ite(conds[i], terms[i], body)
		}
		n.Vars[k] = e.defOrInline(e.S.freshName(k), e.heapSort[k], body)
	}
	return n
}

// oblig records an obligation: under all assumptions so far and the state's reachability, cond holds.
func (e *Exec) oblig(st *State, kind, what, cond, src, pos string) *Obligation {
	base := e.FnName + ":" + kind + ":" + what
	e.oblCount[base]++
	name := fmt.Sprintf("%s#%d", base, e.oblCount[base])
	o := &Obligation{Name: name, Func: e.FnName, Kind: kind, What: what, Goal: implies(st.Reach, cond), Prefix: e.S.mark(), Src: src, Pos: pos, Script: e.S,
		Inlined: strings.Join(e.inlineStack, ">"), ExceptTerms: e.exceptTerms, Exec: e}
	e.Obls = append(e.Obls, o)
	return o
}

// assume adds an assumption unless we are evaluating Go code inside a spec expression.
func (e *Exec) assume(t string) {
	if e.inSpec > 0 {
		return
	}
	e.S.assume(t)
}

// defOrInline names a term, or leaves it inline in spec-mode.
func (e *Exec) defOrInline(name, sort, term string) string {
	if e.inSpec > 0 || isAtom(term) {
		return term
	}
	if e.S.declared[name] {
		name = e.S.freshName(name)
	}
	return e.S.define(name, sort, term)
}

func (e *Exec) note(f string, a ...interface{}) { e.notes = append(e.notes, fmt.Sprintf(f, a...)) }

// refineCtx: the ghost variable of an interface contract is read off the implementing object's
// concrete state (abstraction function), one abstract value per program state.
type refineCtx struct {
	impl    *ImplBlock
	recv    Val    // the receiver object
	selfPay string // payload of the interface value standing for it
	ty      *STy   // type of the ghost variable
	cache   map[*State]string
	entry   *State
}

func (e *Exec) refineView(st *State, from *Env) string {
	rc := e.refine
	if v, ok := rc.cache[st]; ok {
		return v
	}
	name := e.S.declare(e.S.freshName("RV."+rc.impl.Ghost), rc.ty.Sort())
	rc.cache[st] = name
	idx := "q!" + rc.impl.IdxName
	env := &Env{E: e, Vars: map[string]Val{rc.impl.RecvName: rc.recv, rc.impl.IdxName: {T: sym(idx), Ty: rc.ty.Elem.Key}}, St: st, Old: rc.entry,
		Imports: rc.impl.Imports, Pkg: rc.impl.Pkg, Where: fmt.Sprintf("%s:%d view of impl (%s) %s", rc.impl.File, rc.impl.Line, rc.impl.Recv, rc.impl.Iface)}
	saved := e.refine
	e.refine = nil // the view expression itself reads concrete state only
	body := env.elab(rc.impl.View)
	e.refine = saved
	e.S.assume(fmt.Sprintf("(forall ((%s %s)) (! (= (select (select %s %s) %s) %s) :pattern ((select (select %s %s) %s))))", sym(idx), rc.ty.Elem.Key.Sort(), name, rc.selfPay, sym(idx), body.T, name, rc.selfPay, sym(idx)))
	if st != rc.entry {
		ent := e.refineView(rc.entry, from)
		e.S.assume(fmt.Sprintf("(forall ((s Int)) (! (=> (not (= s %s)) (= (select %s s) (select %s s))) :pattern ((select %s s))))", rc.selfPay, name, ent, name))
	}
	return name
}
