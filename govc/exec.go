package main

import (
	"fmt"
	"go/ast"
	"go/token"
	"go/types"
	"sort"
	"strings"

	"golang.org/x/tools/go/ssa"
)

// frame is one activation of a function body in the symbolic executor.
type frame struct {
	fn      *ssa.Function
	vals    map[ssa.Value]Val
	prefix  string
	out     map[*ssa.BasicBlock]*State
	in      map[*ssa.BasicBlock]*State
	done    map[*ssa.BasicBlock]bool
	defers  []deferred
	mode    string // "top", "inline", "spec"
	con     *Contract
	params  map[string]Val
	rets    []retInfo
	cellGuard map[ssa.Value]*GuardTag // local cells (result slots, captured locals) holding an object read out of a guarded map
	loops   map[*ssa.BasicBlock]*loopInfo
	entrySt *State
	iters   map[ssa.Value]*mapIter
	allocs  map[string]bool
	named   map[string]ssa.Value // source variables that denote exactly one SSA value in the function
}

type deferred struct {
	reach string
	call  *ssa.CallCommon
	instr ssa.Instruction
}

type retInfo struct {
	cond string
	vals []Val
	st   *State
	pos  string
}

type loopInfo struct {
	header  *ssa.BasicBlock
	body    map[*ssa.BasicBlock]bool
	ordinal int
	phiVals map[*ssa.Phi]Val
}

type mapIter struct {
	m       Val
	mt      *types.Map
	visited string // heap var name of the visited-set ghost
	isStr   bool
}

var inlineCounter int

func (e *Exec) position(p token.Pos) string {
	if !p.IsValid() {
		return ""
	}
	pos := e.P.Fset.Position(p)
	return fmt.Sprintf("%s:%d", strings.TrimPrefix(pos.Filename, e.P.RepoDir+"/"), pos.Line)
}

// backEdge: p -> b is a back edge iff b dominates p.
func backEdge(p, b *ssa.BasicBlock) bool { return b.Dominates(p) }

// forwardOrder: reverse post-order over forward edges.
func forwardOrder(fn *ssa.Function) []*ssa.BasicBlock {
	seen := map[*ssa.BasicBlock]bool{}
	var post []*ssa.BasicBlock
	var dfs func(b *ssa.BasicBlock)
	dfs = func(b *ssa.BasicBlock) {
		seen[b] = true
		for _, s := range b.Succs {
			if backEdge(b, s) || seen[s] {
				continue
			}
			dfs(s)
		}
		post = append(post, b)
	}
	dfs(fn.Blocks[0])
	for i, j := 0, len(post)-1; i < j; i, j = i+1, j-1 {
		post[i], post[j] = post[j], post[i]
	}
	return post
}

func findLoops(fn *ssa.Function) map[*ssa.BasicBlock]*loopInfo {
	loops := map[*ssa.BasicBlock]*loopInfo{}
	for _, b := range fn.Blocks {
		for _, s := range b.Succs {
			if backEdge(b, s) {
				li := loops[s]
				if li == nil {
					li = &loopInfo{header: s, body: map[*ssa.BasicBlock]bool{s: true}}
					loops[s] = li
				}
				// natural loop: nodes that reach b without passing through s
				var stack []*ssa.BasicBlock
				if !li.body[b] {
					li.body[b] = true
					stack = append(stack, b)
				}
				for len(stack) > 0 {
					x := stack[len(stack)-1]
					stack = stack[:len(stack)-1]
					for _, p := range x.Preds {
						if !li.body[p] {
							li.body[p] = true
							stack = append(stack, p)
						}
					}
				}
			}
		}
	}
	var hs []*ssa.BasicBlock
	for h := range loops {
		hs = append(hs, h)
	}
	sort.Slice(hs, func(i, j int) bool { return hs[i].Index < hs[j].Index })
	for i, h := range hs {
		loops[h].ordinal = i + 1
	}
	return loops
}

// countSourceLoops counts for/range statements of the function's own body (not of nested literals).
func countSourceLoops(fn *ssa.Function) int {
	syn := fn.Syntax()
	if syn == nil {
		return -1
	}
	n := 0
	var body ast.Node
	switch s := syn.(type) {
	case *ast.FuncDecl:
		body = s.Body
	case *ast.FuncLit:
		body = s.Body
	default:
		return -1
	}
	if body == nil {
		return -1
	}
	ast.Inspect(body, func(x ast.Node) bool {
		switch x.(type) {
		case *ast.FuncLit:
			return false
		case *ast.ForStmt, *ast.RangeStmt:
			n++
		}
		return true
	})
	return n
}

// edgeCond: condition under which control goes from p to its k-th successor.
func (f *frame) edgeCond(e *Exec, p *ssa.BasicBlock, k int) string {
	st := f.out[p]
	if st == nil {
		return "false"
	}
	switch t := p.Instrs[len(p.Instrs)-1].(type) {
	case *ssa.If:
		c := e.value(f, t.Cond).T
		if k == 0 {
			return and(st.Reach, c)
		}
		return and(st.Reach, not(c))
	case *ssa.Jump:
		return st.Reach
	}
	return "false"
}

// predSuccIndex: for the i-th predecessor entry of b, the index k in pred.Succs it corresponds to.
func predSuccIndex(b *ssa.BasicBlock, i int) int {
	p := b.Preds[i]
	occ := 0
	for j := 0; j < i; j++ {
		if b.Preds[j] == p {
			occ++
		}
	}
	for k, s := range p.Succs {
		if s == b {
			if occ == 0 {
				return k
			}
			occ--
		}
	}
	return 0
}

func (e *Exec) valName(f *frame, v ssa.Value) string {
	return f.prefix + v.Name()
}

// bind gives SSA value v the symbolic value val, introducing a named definition for non-atomic terms.
func (e *Exec) bind(f *frame, v ssa.Value, val Val) {
	if val.T != "" && val.Ty != nil && val.Ty.K != KTuple && !isAtom(val.T) {
		e.ensureSortDecl(val.Ty)
		val.T = e.defOrInline(e.valName(f, v), val.Ty.Sort(), val.T)
	}
	f.vals[v] = val
}

func isAtom(t string) bool {
	return !strings.HasPrefix(t, "(") || t == "(mk-slice 0 0 0)" || t == "(mk-iface 0 0)"
}

// freshVal declares a fresh symbolic constant of v's type and assumes its type invariant.
func (e *Exec) freshVal(st *State, hint string, t types.Type) Val {
	ty := tyOfGo(t)
	if ty.K == KTuple {
		tup := t.(*types.Tuple)
		var vs []Val
		for i := 0; i < tup.Len(); i++ {
			vs = append(vs, e.freshVal(st, fmt.Sprintf("%s.%d", hint, i), tup.At(i).Type()))
		}
		return Val{Tuple: vs, Ty: ty}
	}
	e.ensureSortDecl(ty)
	n := e.S.declare(e.S.freshName(hint), ty.Sort())
	v := Val{T: n, Ty: ty}
	if inv := e.typeInv(st, v); inv != "true" {
		e.assume(inv)
	}
	return v
}

// value evaluates an SSA operand.
func (e *Exec) value(f *frame, v ssa.Value) Val {
	if val, ok := f.vals[v]; ok {
		return val
	}
	switch v := v.(type) {
	case *ssa.Const:
		return e.constVal(v)
	case *ssa.Global:
		return e.globalAddr(v)
	case *ssa.Function:
		return Val{T: "1", Ty: tyOfGo(v.Type()), Clo: &Closure{Fn: v}}
	case *ssa.Builtin:
		return Val{T: "1", Ty: &STy{K: KFunc}}
	}
	panic(execAbort{fmt.Sprintf("value %s (%T) of %s used before definition", v.Name(), v, f.fn)})
}

type execAbort struct{ msg string }

// runFunc symbolically executes fn from state st0. It returns the merged return values and
// the merged exit state (Reach = some return was reached).
func (e *Exec) runFunc(fn *ssa.Function, args []Val, freeVars []Val, st0 *State, mode string) ([]Val, *State) {
	if fn.Blocks == nil {
		panic(execAbort{"no body for " + fn.String()})
	}
	if e.depth > 12 {
		panic(execAbort{"inlining too deep at " + fn.String()})
	}
	e.depth++
	defer func() { e.depth-- }()
	inlineCounter++
	f := &frame{fn: fn, vals: map[ssa.Value]Val{}, out: map[*ssa.BasicBlock]*State{}, in: map[*ssa.BasicBlock]*State{},
		done: map[*ssa.BasicBlock]bool{}, mode: mode, params: map[string]Val{}, iters: map[ssa.Value]*mapIter{}, allocs: map[string]bool{}}
	if mode != "top" {
		f.prefix = fmt.Sprintf("i%d.", inlineCounter)
	}
	if mode == "top" {
		f.con = e.W.contractFor(fn)
	} else if c := e.W.contractFor(fn); c != nil && len(c.LoopInv) > 0 {
		f.con = c
	}
	for i, p := range fn.Params {
		if i < len(args) {
			f.vals[p] = args[i]
			f.params[p.Name()] = args[i]
		}
	}
	for i, fv := range fn.FreeVars {
		if i < len(freeVars) {
			f.vals[fv] = freeVars[i]
		}
	}
	f.entrySt = st0
	f.named = singleValuedNames(fn)
	f.loops = findLoops(fn)
	if len(f.loops) > 0 && mode == "top" {
		if n := countSourceLoops(fn); n >= 0 && n != len(f.loops) {
			e.note("CONTRACT-STALE: %s has %d source loops but %d CFG loops", fn, n, len(f.loops))
		}
	}
	order := forwardOrder(fn)
	for _, b := range order {
		var st *State
		var conds []string
		var predIdx []int
		if b == fn.Blocks[0] {
			st = st0.clone()
		} else {
			var states []*State
			for i, p := range b.Preds {
				if backEdge(p, b) || !f.done[p] {
					continue
				}
				c := f.edgeCond(e, p, predSuccIndex(b, i))
				if c == "false" {
					continue
				}
				conds = append(conds, c)
				states = append(states, f.out[p])
				predIdx = append(predIdx, i)
			}
			if len(states) == 0 {
				continue // unreachable
			}
			st = e.merge(conds, states)
			st.Reach = e.defOrInline(e.S.freshName(fmt.Sprintf("%sreach.b%d", f.prefix, b.Index)), "Bool", st.Reach)
		}
		f.in[b] = st
		// phis
		li := f.loops[b]
		for _, ins := range b.Instrs {
			phi, ok := ins.(*ssa.Phi)
			if !ok {
				break
			}
			var vals []Val
			for _, pi := range predIdx {
				vals = append(vals, e.value(f, phi.Edges[pi]))
			}
			if len(vals) == 0 {
				continue
			}
			v := vals[len(vals)-1]
			for i := len(vals) - 2; i >= 0; i-- {
				if vals[i].T == "" || v.T == "" {
					panic(execAbort{"phi of address values in " + fn.String()})
				}
				g := v.Guard
				if g == nil || !g.Elem {
					g = vals[i].Guard
				}
				v = Val{T: ite(conds[i], vals[i].T, v.T), Ty: v.Ty, Clo: nil}
				if g != nil && g.Elem {
					v.Guard = g
				}
			}
			if len(vals) == 1 {
				v = vals[0]
			}
			e.bind(f, phi, v)
		}
		if li != nil {
			e.cutLoop(f, li, st)
		}
		// instructions
		aborted := false
		for _, ins := range b.Instrs {
			if _, ok := ins.(*ssa.Phi); ok {
				continue
			}
			if e.instr(f, st, ins) {
				aborted = true
				break
			}
		}
		_ = aborted
		f.out[b] = st
		f.done[b] = true
		// back edges out of b: invariant preservation
		for k, s := range b.Succs {
			if backEdge(b, s) {
				if l := f.loops[s]; l != nil {
					e.checkBackEdge(f, l, b, k)
				}
			}
		}
	}
	// merge returns
	if mode == "top" {
		e.topRets = f.rets
	}
	if len(f.rets) == 0 {
		return nil, &State{Reach: "false", Vars: map[string]string{}, Epoch: st0.Epoch, PH: st0.PH}
	}
	var conds []string
	var states []*State
	for _, r := range f.rets {
		conds = append(conds, r.cond)
		states = append(states, r.st)
	}
	out := e.merge(conds, states)
	nres := len(f.rets[0].vals)
	rets := make([]Val, nres)
	for j := 0; j < nres; j++ {
		v := f.rets[len(f.rets)-1].vals[j]
		for i := len(f.rets) - 2; i >= 0; i-- {
			o := f.rets[i].vals[j]
			clo := v.Clo
			if o.Clo == nil || clo == nil || o.Clo.Fn != clo.Fn {
				clo = nil
			}
			g := v.Guard
			if g == nil || !g.Elem {
				g = o.Guard
			}
			v = Val{T: ite(f.rets[i].cond, o.T, v.T), Ty: v.Ty, Clo: clo}
			if g != nil && g.Elem {
				v.Guard = g // an object read out of a guarded map stays guarded on whichever path it is returned
			}
		}
		e.ensureSortDecl(v.Ty)
		v.T = e.defOrInline(e.S.freshName(f.prefix+"ret"), v.Ty.Sort(), v.T)
		rets[j] = v
	}
	return rets, out
}

// ---------------------------------------------------------------------------
// loops
// ---------------------------------------------------------------------------

// loopModifies computes which heaps the loop body may write (syntactically).
func (e *Exec) loopWrites(f *frame, li *loopInfo) (all bool) {
	for b := range li.body {
		for _, ins := range b.Instrs {
			switch x := ins.(type) {
			case *ssa.Call:
				if e.callMayWriteEverything(f, x.Common()) {
					return true
				}
			case *ssa.Defer, *ssa.Go:
				return true
			}
		}
	}
	return false
}

func (e *Exec) cutLoop(f *frame, li *loopInfo, st *State) {
	// 1. invariants hold on entry
	invs := e.loopInvariants(f, li)
	envIn := e.loopEnv(f, li, st)
	for _, inv := range invs {
		t := e.elabClause(envIn, inv)
		e.oblig(st, "inv-init", fmt.Sprintf("loop%d.%s", li.ordinal, inv.ID), t, inv.Src, "")
	}
	// 2. havoc loop-carried values and heaps written in the body
	if e.loopWrites(f, li) {
		e.havocAll(st, nil)
	} else {
		hs := e.loopHeapWrites(f, li, st)
		e.bumpTop(st)
		for _, h := range hs {
			e.havoc(st, h)
		}
	}
	for _, ins := range li.header.Instrs {
		phi, ok := ins.(*ssa.Phi)
		if !ok {
			break
		}
		nv := e.freshVal(st, f.prefix+phi.Name()+".loop", phi.Type())
		f.vals[phi] = nv
	}
	// every object that exists at the loop head (refs <= the head's watermark) holds well-typed
	// values in every heap, also in heaps the loop does not write (objects allocated by earlier
	// iterations or calls lie above the watermark those heaps' invariants were stated for)
	e.reassertHeapInvs(st)
	// 3. assume invariants
	envH := e.loopEnv(f, li, st)
	for _, inv := range invs {
		t := e.elabClause(envH, inv)
		e.S.assume(implies(st.Reach, t))
	}
}

func (e *Exec) checkBackEdge(f *frame, li *loopInfo, from *ssa.BasicBlock, k int) {
	st := f.out[from].clone()
	st.Reach = f.edgeCond(e, from, k)
	// phi values along this edge
	env := e.loopEnv(f, li, st)
	// which pred index of header corresponds to (from,k)?
	for i := range li.header.Preds {
		if li.header.Preds[i] == from && predSuccIndex(li.header, i) == k {
			for _, ins := range li.header.Instrs {
				phi, ok := ins.(*ssa.Phi)
				if !ok {
					break
				}
				v := e.value(f, phi.Edges[i])
				if phi.Comment != "" {
					env.Vars[phi.Comment] = v
				}
				if phi.Comment == "rangeindex" {
					// the ordinal-qualified name of THIS loop's index must see the value along the
					// back edge too (it used to keep the header value, which made a step obligation
					// written with rangeindexN hold trivially)
					env.Vars[fmt.Sprintf("rangeindex%d", li.ordinal)] = v
				}
				env.Vars[phi.Name()] = v
			}
		}
	}
	for _, inv := range e.loopInvariants(f, li) {
		t := e.elabClause(env, inv)
		e.oblig(st, "inv-step", fmt.Sprintf("loop%d.%s", li.ordinal, inv.ID), t, inv.Src, "")
		// the invariants are proved in the order they are written: one that has its own obligation
		// on this edge may be used for the ones after it (all of them have to be discharged)
		e.S.assume(implies(st.Reach, t))
	}
}

func (e *Exec) loopInvariants(f *frame, li *loopInfo) []Clause {
	var invs []Clause
	// automatic: range index >= -1
	for _, ins := range li.header.Instrs {
		phi, ok := ins.(*ssa.Phi)
		if !ok {
			break
		}
		if phi.Comment == "rangeindex" {
			invs = append(invs, Clause{ID: "auto_idx", E: &EBin{Op: ">=", X: &EIdent{Name: "rangeindex"}, Y: &EUn{Op: "-", X: &EInt{V: "1"}}}, Src: "rangeindex >= -1"})
			if rangeLenOf(li.header, phi) != nil {
				invs = append(invs, Clause{ID: "auto_len", E: &EBin{Op: "<=", X: &EBin{Op: "+", X: &EIdent{Name: "rangeindex"}, Y: &EInt{V: "1"}}, Y: &EIdent{Name: "$rangelen"}}, Src: "rangeindex + 1 <= len"})
			}
		}
	}
	// package invariants are loop invariants of every loop of the package's functions
	if f.mode == "top" && f.fn.Pkg != nil && !(f.fn.Name() == "init" && f.fn.Signature.Recv() == nil) {
		for _, iv := range e.W.PkgInv[f.fn.Pkg.Pkg.Path()] {
			c := iv.Clause
			c.ID = "pkginv_" + c.ID
			invs = append(invs, c)
		}
	}
	if f.con != nil {
		invs = append(invs, f.con.LoopInv[li.ordinal]...)
	}
	return invs
}

// loopEnv: environment for loop invariants: parameters + header phis by source name.
func (e *Exec) loopEnv(f *frame, li *loopInfo, st *State) *Env {
	env := e.contractEnv(f, st)
	for _, ins := range li.header.Instrs {
		phi, ok := ins.(*ssa.Phi)
		if !ok {
			break
		}
		if v, ok := f.vals[phi]; ok {
			if phi.Comment != "" {
				env.Vars[phi.Comment] = v
			}
			env.Vars[phi.Name()] = v
		}
	}
	// local variables that denote a single SSA value (from the debug references of the SSA build)
	for name, sv := range f.named {
		if v, ok := f.vals[sv]; ok {
			if _, taken := env.Vars[name]; !taken {
				env.Vars[name] = v
			}
		}
	}
	// range indices of all loops by ordinal: rangeindex1, rangeindex2, ...
	for h, l := range f.loops {
		for _, ins := range h.Instrs {
			phi, ok := ins.(*ssa.Phi)
			if !ok {
				break
			}
			if phi.Comment == "rangeindex" {
				if v, ok := f.vals[phi]; ok {
					env.Vars[fmt.Sprintf("rangeindex%d", l.ordinal)] = v
				}
				if lv := rangeLenOf(h, phi); lv != nil {
					if call, ok := lv.(*ssa.Call); ok && len(call.Call.Args) == 1 {
						if sv, ok := f.vals[call.Call.Args[0]]; ok {
							env.Vars[fmt.Sprintf("$rangeslice%d", l.ordinal)] = sv
						}
					}
				}
			}
		}
	}
	// named phis outside the loop header (variables assigned on several paths before the loop)
	for _, b := range f.fn.Blocks {
		if b == li.header {
			continue
		}
		for _, ins := range b.Instrs {
			phi, ok := ins.(*ssa.Phi)
			if !ok {
				break
			}
			if v, ok := f.vals[phi]; ok && phi.Comment != "" {
				if _, taken := env.Vars[phi.Comment]; !taken {
					env.Vars[phi.Comment] = v
				}
			}
		}
	}
	for _, ins := range li.header.Instrs {
		if phi, ok := ins.(*ssa.Phi); ok && phi.Comment == "rangeindex" {
			if lv := rangeLenOf(li.header, phi); lv != nil {
				if v, ok := f.vals[lv]; ok {
					env.Vars["$rangelen"] = v
				} else if c, ok := lv.(*ssa.Const); ok {
					env.Vars["$rangelen"] = e.constVal(c)
				}
				// the slice being ranged over: the argument of the len() call
				if call, ok := lv.(*ssa.Call); ok && len(call.Call.Args) == 1 {
					if sv, ok := f.vals[call.Call.Args[0]]; ok {
						env.Vars["$rangeslice"] = sv
					}
				}
			}
		}
	}
	// named local variables that live in memory (address-taken): by source name, as pointers
	for _, b := range f.fn.Blocks {
		for _, ins := range b.Instrs {
			if a, ok := ins.(*ssa.Alloc); ok && a.Comment != "" {
				if v, ok := f.vals[a]; ok {
					if _, taken := env.Vars[a.Comment]; !taken {
						env.Vars[a.Comment] = v
					}
				}
			}
		}
	}
	// map iteration ghost
	for b := range li.body {
		for _, ins := range b.Instrs {
			if nx, ok := ins.(*ssa.Next); ok {
				if it := f.iters[nx.Iter]; it != nil && !it.isStr {
					kty := tyOfGo(it.mt.Key())
					env.Vars["$visited"] = Val{T: e.get(st, it.visited), Ty: &STy{K: KArr, Key: kty, Elem: tyBool}}
					env.Vars["$rangemap"] = it.m
				}
			}
		}
	}
	return env
}

func (e *Exec) contractEnv(f *frame, st *State) *Env {
	env := &Env{E: e, Vars: map[string]Val{}, St: st, Old: f.entrySt, Where: f.fn.String()}
	for k, v := range f.params {
		env.Vars[k] = v
	}
	if f.con != nil {
		env.Imports = e.W.ImportsOf[f.con]
		env.Pkg = f.con.PkgPath
		for i, n := range f.con.Params {
			if i < len(f.fn.Params) {
				env.Vars[n] = f.vals[f.fn.Params[i]]
			}
		}
	}
	if env.Pkg == "" && f.fn.Pkg != nil {
		env.Pkg = f.fn.Pkg.Pkg.Path()
	}
	return env
}

func (e *Exec) elabClause(env *Env, c Clause) string {
	saved := env.Where
	env.Where = fmt.Sprintf("%s:%d clause %s", c.File, c.Line, c.ID)
	defer func() { env.Where = saved }()
	return env.elabBool(c.E)
}

// loopHeapWrites: names of heaps stored to in the loop body (incl. callee modifies).
func (e *Exec) loopHeapWrites(f *frame, li *loopInfo, st *State) []string {
	set := map[string]bool{}
	for b := range li.body {
		for _, ins := range b.Instrs {
			e.instrWrites(f, ins, set)
		}
	}
	var out []string
	for h := range set {
		if _, ok := e.heapSort[h]; ok {
			out = append(out, h)
		}
	}
	sort.Strings(out)
	return out
}

// rangeLenOf: the length a range-index loop counts up to (Y of the header's "phi+1 < len" test).
func rangeLenOf(header *ssa.BasicBlock, phi *ssa.Phi) ssa.Value {
	var inc ssa.Value
	for _, ins := range header.Instrs {
		if b, ok := ins.(*ssa.BinOp); ok {
			if b.Op == token.ADD && b.X == phi {
				inc = b
			}
			if b.Op == token.LSS && inc != nil && b.X == inc {
				return b.Y
			}
		}
	}
	return nil
}

// singleValuedNames: source-level local variable names that refer to one and the same SSA value at
// every reference in the function (so that contracts may mention them by name).
func singleValuedNames(fn *ssa.Function) map[string]ssa.Value {
	seen := map[string]ssa.Value{}
	multi := map[string]bool{}
	for _, b := range fn.Blocks {
		for _, ins := range b.Instrs {
			d, ok := ins.(*ssa.DebugRef)
			if !ok || d.IsAddr {
				continue
			}
			id, ok := d.Expr.(*ast.Ident)
			if !ok {
				continue
			}
			if prev, ok := seen[id.Name]; ok && prev != d.X {
				multi[id.Name] = true
			}
			seen[id.Name] = d.X
		}
	}
	for n := range multi {
		delete(seen, n)
	}
	return seen
}
