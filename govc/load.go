package main

import (
	"fmt"
	"go/ast"
	"go/token"
	"go/types"
	"os"
	"sort"
	"strings"

	"golang.org/x/tools/go/packages"
	"golang.org/x/tools/go/ssa"
	"golang.org/x/tools/go/ssa/ssautil"
)

// Program is /repo loaded from its current working tree with -tags verif,
// type-checked and built into go/ssa form.
type Program struct {
	Fset    *token.FileSet
	Pkgs    []*packages.Package
	SSA     *ssa.Program
	ByPath  map[string]*packages.Package // import path -> package (all deps)
	RepoDir string
	ModPath string
	// contract comment blocks found in zz_contracts_verif.go files, per package path
	ContractSrc map[string][]ContractLine
	repoFuncs   []*ssa.Function
}

// ContractLine is one "//@" line of a guarded contract file.
type ContractLine struct {
	File string
	Line int
	Text string
}

const repoModule = "github.com/istio-ecosystem/authservice"

func loadProgram(repo string) (*Program, error) {
	fset := token.NewFileSet()
	cfg := &packages.Config{
		Mode: packages.NeedName | packages.NeedFiles | packages.NeedCompiledGoFiles | packages.NeedImports |
			packages.NeedDeps | packages.NeedTypes | packages.NeedSyntax | packages.NeedTypesInfo | packages.NeedTypesSizes | packages.NeedModule,
		Dir:        repo,
		Fset:       fset,
		Tests:      false,
		BuildFlags: []string{"-tags=verif"},
		Env:        append(os.Environ(), "GOFLAGS=-mod=mod", "GOPROXY=off"),
	}
	pkgs, err := packages.Load(cfg, "./internal/...", "./cmd/...")
	if err != nil {
		return nil, fmt.Errorf("BUILD-FAILED: %v", err)
	}
	var errs []string
	packages.Visit(pkgs, nil, func(p *packages.Package) {
		for _, e := range p.Errors {
			errs = append(errs, e.Error())
		}
	})
	if len(errs) > 0 {
		return nil, fmt.Errorf("BUILD-FAILED: %s", strings.Join(errs, "\n"))
	}
	prog, _ := ssautil.AllPackages(pkgs, ssa.InstantiateGenerics|ssa.GlobalDebug)
	prog.Build()
	p := &Program{Fset: fset, Pkgs: pkgs, SSA: prog, ByPath: map[string]*packages.Package{}, RepoDir: repo, ModPath: repoModule,
		ContractSrc: map[string][]ContractLine{}}
	packages.Visit(pkgs, nil, func(pk *packages.Package) { p.ByPath[pk.PkgPath] = pk })
	// collect contract lines
	for _, pk := range pkgs {
		for i, f := range pk.Syntax {
			name := pk.CompiledGoFiles[i]
			if !strings.HasSuffix(name, "zz_contracts_verif.go") {
				continue
			}
			p.ContractSrc[pk.PkgPath] = append(p.ContractSrc[pk.PkgPath], contractLines(fset, f, name)...)
		}
	}
	return p, nil
}

func contractLines(fset *token.FileSet, f *ast.File, name string) []ContractLine {
	var out []ContractLine
	for _, cg := range f.Comments {
		for _, c := range cg.List {
			t := c.Text
			if strings.HasPrefix(t, "//@") {
				out = append(out, ContractLine{File: name, Line: fset.Position(c.Pos()).Line, Text: strings.TrimPrefix(t, "//@")})
			}
		}
	}
	return out
}

// shortPkg gives the short display name used in obligation names: last path element.
func shortPkg(path string) string {
	if i := strings.LastIndex(path, "/"); i >= 0 {
		return path[i+1:]
	}
	return path
}

// funcKey: canonical key of an ssa.Function used to attach contracts:
//
//	<pkgpath>.Func   or   <pkgpath>.(*T).Method / <pkgpath>.(T).Method
func funcKey(fn *ssa.Function) string {
	if fn == nil {
		return "<nil>"
	}
	if fn.Signature != nil && fn.Signature.Recv() != nil {
		rt := fn.Signature.Recv().Type()
		ptr := ""
		if p, ok := rt.(*types.Pointer); ok {
			rt = p.Elem()
			ptr = "*"
		}
		if n, ok := rt.(*types.Named); ok && n.Obj().Pkg() != nil {
			return n.Obj().Pkg().Path() + ".(" + ptr + n.Obj().Name() + ")." + fn.Name()
		}
		return fn.String()
	}
	if fn.Pkg != nil {
		return fn.Pkg.Pkg.Path() + "." + fn.Name()
	}
	if fn.Object() != nil && fn.Object().Pkg() != nil {
		return fn.Object().Pkg().Path() + "." + fn.Name()
	}
	return fn.String()
}

// displayName is the line-number-free name used in obligation names.
func displayName(fn *ssa.Function) string {
	k := funcKey(fn)
	// strip module prefix directories, keep last path element
	if i := strings.LastIndex(k, "/"); i >= 0 {
		k = k[i+1:]
	}
	k = strings.ReplaceAll(k, "(*", "")
	k = strings.ReplaceAll(k, "(", "")
	k = strings.ReplaceAll(k, ")", "")
	return k
}

// lookupFunc resolves a contract key "Func", "(*T).M", "(T).M" inside package path.
func (p *Program) lookupFunc(pkgPath, key string) *ssa.Function {
	pk := p.SSA.ImportedPackage(pkgPath)
	if pk == nil {
		return nil
	}
	if strings.HasPrefix(key, "(") {
		end := strings.Index(key, ").")
		if end < 0 {
			return nil
		}
		recv := key[1:end]
		meth := key[end+2:]
		ptr := strings.HasPrefix(recv, "*")
		recv = strings.TrimPrefix(recv, "*")
		obj := pk.Pkg.Scope().Lookup(recv)
		if obj == nil {
			return nil
		}
		var t types.Type = obj.Type()
		if ptr {
			t = types.NewPointer(t)
		}
		ms := p.SSA.MethodSets.MethodSet(t)
		for i := 0; i < ms.Len(); i++ {
			if ms.At(i).Obj().Name() == meth {
				fn := p.SSA.MethodValue(ms.At(i))
				// a (*T).M wrapper of a value method is not the declared function
				if fn != nil && fn.Synthetic != "" {
					return nil
				}
				return fn
			}
		}
		return nil
	}
	return pk.Func(key)
}

// allRepoFuncs returns every non-synthetic function (incl. methods and anonymous
// functions) declared in non-generated repo packages.
func (p *Program) allRepoFuncs() []*ssa.Function {
	if p.repoFuncs != nil {
		return p.repoFuncs
	}
	defer func() { p.repoFuncs = p.allRepoFuncs0() }()
	return p.allRepoFuncs0()
}

func (p *Program) allRepoFuncs0() []*ssa.Function {
	var out []*ssa.Function
	for fn := range ssautil.AllFunctions(p.SSA) {
		if (fn.Synthetic != "" && fn.Name() != "init") || fn.Blocks == nil {
			continue
		}
		pk := fn.Pkg
		if pk == nil && fn.Parent() != nil {
			pk = fn.Parent().Pkg
		}
		if pk == nil || !strings.HasPrefix(pk.Pkg.Path(), p.ModPath+"/internal") && !strings.HasPrefix(pk.Pkg.Path(), p.ModPath+"/cmd") {
			continue
		}
		out = append(out, fn)
	}
	sort.Slice(out, func(i, j int) bool { return out[i].String() < out[j].String() })
	return out
}
