package main

import (
	"fmt"
	"go/constant"
	"go/types"
	"strings"

	"golang.org/x/tools/go/ssa"
)

// ---------------------------------------------------------------------------
// memory model helpers
// ---------------------------------------------------------------------------

func isStructValType(t types.Type) bool {
	if isTimeType(t) {
		return false
	}
	_, ok := t.Underlying().(*types.Struct)
	return ok
}

// fieldAddr: address of field i of the struct object obj (of struct type structT).
func (e *Exec) fieldAddr(obj string, structT types.Type, i int) *Addr {
	st := structT.Underlying().(*types.Struct)
	f := st.Field(i)
	fty := tyOfGo(f.Type())
	name := fieldHeapName(structT, f.Name())
	if isStructValType(f.Type()) {
		// embedded struct value: a sub-object with its own identity
		fn := "sub." + name
		if !e.S.declared[fn] {
			e.S.declareFun(fn, []string{"Int"}, "Int")
			// the address of an embedded struct of an existing object is a non-nil reference
			e.S.assume(fmt.Sprintf("(forall ((o Int)) (! (=> (> o 0) (> (%s o) 0)) :pattern ((%s o))))", sym(fn), sym(fn)))
		}
		sub := app(sym(fn), obj)
		return &Addr{Sub: sub, Ty: fty}
	}
	if _, isArr := f.Type().Underlying().(*types.Array); isArr {
		fn := "sub." + name
		e.S.declareFun(fn, []string{"Int"}, "Int")
		return &Addr{Sub: app(sym(fn), obj), Ty: fty}
	}
	e.regHeap(name, "(Array Int "+fty.Sort()+")")
	e.heapGoTy[name] = f.Type()
	e.ensureSortDecl(fty)
	return &Addr{Heap: name, Obj: obj, Ty: fty}
}

// elemAddr: address of element idx of slice value sl with element type elemT.
func (e *Exec) elemAddr(sl Val, idx string, elemT types.Type) *Addr {
	ety := tyOfGo(elemT)
	if isStructValType(elemT) {
		fn := "esub." + mangle(types.TypeString(elemT, nil))
		e.S.declareFun(fn, []string{"Int", "Int"}, "Int")
		return &Addr{Sub: app(sym(fn), app("sl-base", sl.T), idx), Ty: ety}
	}
	name := elemHeapName(ety)
	e.regHeap(name, "(Array Int (Array Int "+ety.Sort()+"))")
	e.ensureSortDecl(ety)
	// slices always start at offset 0 of their backing object (sub-slicing copies, see execSlice):
	// keeping index arithmetic out of element addresses keeps quantified specs instantiable.
	return &Addr{Heap: name, Obj: app("sl-base", sl.T), Idx: idx, Ty: ety}
}

// arrElemAddr: address of element idx of the array object at ref base.
func (e *Exec) arrElemAddr(base string, idx string, elemT types.Type) *Addr {
	ety := tyOfGo(elemT)
	if isStructValType(elemT) {
		fn := "esub." + mangle(types.TypeString(elemT, nil))
		e.S.declareFun(fn, []string{"Int", "Int"}, "Int")
		return &Addr{Sub: app(sym(fn), base, idx), Ty: ety}
	}
	name := elemHeapName(ety)
	e.regHeap(name, "(Array Int (Array Int "+ety.Sort()+"))")
	e.ensureSortDecl(ety)
	return &Addr{Heap: name, Obj: base, Idx: idx, Ty: ety}
}

// cellAddr: the location a non-struct pointer ref points to.
func (e *Exec) cellAddr(ref string, pointee types.Type) *Addr {
	pty := tyOfGo(pointee)
	if isStructValType(pointee) {
		return &Addr{Sub: ref, Ty: pty}
	}
	if _, isArr := pointee.Underlying().(*types.Array); isArr {
		return &Addr{Sub: ref, Ty: pty}
	}
	name := cellHeapName(pty)
	e.regHeap(name, "(Array Int "+pty.Sort()+")")
	e.ensureSortDecl(pty)
	return &Addr{Heap: name, Obj: ref, Ty: pty}
}

// addrOf returns the location a pointer value designates.
func (e *Exec) addrOf(p Val) *Addr {
	if p.Addr != nil {
		return p.Addr
	}
	pt, ok := p.Ty.Go.Underlying().(*types.Pointer)
	if !ok {
		panic(fmt.Sprintf("addrOf: not a pointer: %s", p.Ty))
	}
	return e.cellAddr(p.T, pt.Elem())
}

func (e *Exec) load(st *State, a *Addr) Val {
	if a.Sub != "" {
		return e.loadStruct(st, a.Sub, a.Ty.Go)
	}
	h := e.get(st, a.Heap)
	if a.Idx == "" {
		return Val{T: app("select", h, a.Obj), Ty: a.Ty}
	}
	return Val{T: app("select", app("select", h, a.Obj), a.Idx), Ty: a.Ty}
}

func (e *Exec) loadStruct(st *State, ref string, t types.Type) Val {
	name := e.S.ensureStruct(t)
	s, ok := t.Underlying().(*types.Struct)
	if !ok {
		// opaque array value etc.
		e.S.declareFun("opaqueval."+name, []string{"Int"}, name)
		return Val{T: app(sym("opaqueval."+name), ref), Ty: tyOfGo(t)}
	}
	if s.NumFields() == 0 {
		return Val{T: "mk-" + name, Ty: tyOfGo(t)}
	}
	var parts []string
	for i := 0; i < s.NumFields(); i++ {
		fa := e.fieldAddr(ref, t, i)
		parts = append(parts, e.load(st, fa).T)
	}
	return Val{T: "(mk-" + name + " " + strings.Join(parts, " ") + ")", Ty: tyOfGo(t)}
}

func (e *Exec) store(st *State, a *Addr, v Val) {
	if a.Sub != "" {
		e.storeStruct(st, a.Sub, a.Ty.Go, v)
		return
	}
	h := e.get(st, a.Heap)
	if a.Idx == "" {
		e.setDef(st, a.Heap, app("store", h, a.Obj, v.T))
		return
	}
	e.setDef(st, a.Heap, app("store", h, a.Obj, app("store", app("select", h, a.Obj), a.Idx, v.T)))
}

func (e *Exec) storeStruct(st *State, ref string, t types.Type, v Val) {
	s, ok := t.Underlying().(*types.Struct)
	if !ok {
		return
	}
	e.S.ensureStruct(t)
	for i := 0; i < s.NumFields(); i++ {
		fa := e.fieldAddr(ref, t, i)
		fv := Val{T: app(sym(structFieldSel(t, i)), v.T), Ty: tyOfGo(s.Field(i).Type())}
		e.store(st, fa, fv)
	}
}

// allocRef returns a fresh non-nil reference above the current watermark.
func (e *Exec) allocRef(st *State, hint string) string {
	r := e.S.declare(e.S.freshName("new."+hint), "Int")
	top := e.get(st, topVar)
	e.assume(app(">", r, top))
	e.assume(app(">", r, "0"))
	e.set(st, topVar, r)
	return r
}

// zeroInit assumes the freshly allocated object's fields to be zero (they were never written).
func (e *Exec) zeroInit(st *State, ref string, t types.Type) {
	switch u := t.Underlying().(type) {
	case *types.Struct:
		if isTimeType(t) {
			return
		}
		for i := 0; i < u.NumFields(); i++ {
			fa := e.fieldAddr(ref, t, i)
			if fa.Sub != "" {
				e.zeroInit(st, fa.Sub, u.Field(i).Type())
				continue
			}
			cur := e.load(st, fa)
			e.assume(eq(cur.T, fa.Ty.Zero(e.S)))
		}
	case *types.Array:
		ety := tyOfGo(u.Elem())
		if isStructValType(u.Elem()) {
			return
		}
		name := elemHeapName(ety)
		e.regHeap(name, "(Array Int (Array Int "+ety.Sort()+"))")
		e.ensureSortDecl(ety)
		if u.Len() <= 16 {
			h := e.get(st, name)
			for i := int64(0); i < u.Len(); i++ {
				e.assume(eq(app("select", app("select", h, ref), smtInt(i)), ety.Zero(e.S)))
			}
		}
	default:
		a := e.cellAddr(ref, t)
		cur := e.load(st, a)
		e.assume(eq(cur.T, a.Ty.Zero(e.S)))
	}
}

// mapLookup returns (value-or-zero, present).
// mapTypeTag: maps whose keys / values have the same SMT sorts share their heaps; a map object has ONE Go
// type, so two maps of different Go types are different objects. The fact is stated through an
// uninterpreted tag (closed terms only: m may not mention a bound variable of a quantifier).
func (e *Exec) mapTypeTag(m string, mt *types.Map) {
	if e.inSpec > 0 || strings.Contains(m, "q!") || strings.Contains(m, "h!") {
		return
	}
	if e.mapTypeIDs == nil {
		e.mapTypeIDs = map[string]int{}
		e.mapTagged = map[string]bool{}
	}
	ts := mt.String()
	id, ok := e.mapTypeIDs[ts]
	if !ok {
		id = len(e.mapTypeIDs) + 1
		e.mapTypeIDs[ts] = id
	}
	if e.mapTagged[m] {
		return
	}
	e.mapTagged[m] = true
	e.S.declareFun("$maptype", []string{"Int"}, "Int")
	e.S.assume(fmt.Sprintf("(=> (not (= %s 0)) (= ($maptype %s) %d))", m, m, id))
}

func (e *Exec) mapLookup(st *State, m, k string, mt *types.Map) (Val, string) {
	kty, vty := tyOfGo(mt.Key()), tyOfGo(mt.Elem())
	e.ensureSortDecl(vty)
	pn, vn := mapPHeapName(kty, vty), mapVHeapName(kty, vty)
	e.regHeap(pn, "(Array Int (Array "+kty.Sort()+" Bool))")
	e.regHeap(vn, "(Array Int (Array "+kty.Sort()+" "+vty.Sort()+"))")
	e.mapKeySort[vn] = kty.Sort()
	p := app("select", app("select", e.get(st, pn), m), k)
	v := app("select", app("select", e.get(st, vn), m), k)
	pres := and(not(eq(m, "0")), p)
	return Val{T: ite(pres, v, vty.Zero(e.S)), Ty: vty}, pres
}

func (e *Exec) mapLen(st *State, m string) string {
	e.regHeap(mapLHeapName(), "(Array Int Int)")
	return app("select", e.get(st, mapLHeapName()), m)
}

func (e *Exec) mapUpdate(st *State, m, k string, v Val, mt *types.Map) {
	kty, vty := tyOfGo(mt.Key()), tyOfGo(mt.Elem())
	e.ensureSortDecl(vty)
	pn, vn := mapPHeapName(kty, vty), mapVHeapName(kty, vty)
	e.regHeap(pn, "(Array Int (Array "+kty.Sort()+" Bool))")
	e.regHeap(vn, "(Array Int (Array "+kty.Sort()+" "+vty.Sort()+"))")
	e.regHeap(mapLHeapName(), "(Array Int Int)")
	P, V, L := e.get(st, pn), e.get(st, vn), e.get(st, mapLHeapName())
	was := app("select", app("select", P, m), k)
	e.setDef(st, mapLHeapName(), app("store", L, m, app("+", app("select", L, m), ite(was, "0", "1"))))
	e.setDef(st, pn, app("store", P, m, app("store", app("select", P, m), k, "true")))
	e.setDef(st, vn, app("store", V, m, app("store", app("select", V, m), k, v.T)))
}

func (e *Exec) mapDelete(st *State, m, k string, mt *types.Map) {
	kty, vty := tyOfGo(mt.Key()), tyOfGo(mt.Elem())
	pn := mapPHeapName(kty, vty)
	e.regHeap(pn, "(Array Int (Array "+kty.Sort()+" Bool))")
	e.regHeap(mapLHeapName(), "(Array Int Int)")
	P, L := e.get(st, pn), e.get(st, mapLHeapName())
	was := and(not(eq(m, "0")), app("select", app("select", P, m), k))
	e.setDef(st, mapLHeapName(), app("store", L, m, app("-", app("select", L, m), ite(was, "1", "0"))))
	e.setDef(st, pn, app("store", P, m, app("store", app("select", P, m), k, "false")))
}

// makeIface wraps a value of static Go type t into an interface value.
func (e *Exec) makeIface(v Val, t types.Type) Val {
	if _, isIface := t.Underlying().(*types.Interface); isIface {
		return Val{T: v.T, Ty: tyIface}
	}
	tag := smtInt(int64(e.S.tagOf(t)))
	vt := tyOfGo(t)
	if isIntSorted(vt) {
		return Val{T: app("mk-iface", tag, v.T), Ty: tyIface}
	}
	e.ensureSortDecl(vt)
	sk := sortKey(vt.Sort())
	e.S.declareFun("box."+sk, []string{vt.Sort()}, "Int")
	e.S.declareFun("unbox."+sk, []string{"Int"}, vt.Sort())
	b := app(sym("box."+sk), v.T)
	key := "boxax:" + sk + ":" + v.T
	if !e.boxDecl[key] {
		e.boxDecl[key] = true
		e.assume(eq(app(sym("unbox."+sk), b), v.T))
	}
	return Val{T: app("mk-iface", tag, b), Ty: tyIface}
}

// unboxIface extracts the payload of an interface value as a value of type ty (unchecked).
func (e *Exec) unboxIface(v Val, ty *STy) Val {
	if isIntSorted(ty) {
		return Val{T: app("if-pay", v.T), Ty: ty}
	}
	if ty.K == KIface {
		return Val{T: v.T, Ty: ty}
	}
	e.ensureSortDecl(ty)
	sk := sortKey(ty.Sort())
	e.S.declareFun("box."+sk, []string{ty.Sort()}, "Int")
	e.S.declareFun("unbox."+sk, []string{"Int"}, ty.Sort())
	return Val{T: app(sym("unbox."+sk), app("if-pay", v.T)), Ty: ty}
}

func (e *Exec) bytesToString(sl string) string {
	e.S.declareFun("b2s", []string{"Slice"}, "String")
	return app("b2s", sl)
}

func (e *Exec) globalAddr(g *ssa.Global) Val {
	name := "glob." + mangle(g.Pkg.Pkg.Path()+"."+g.Name())
	r := e.S.declare(name, "Int")
	key := "globax:" + name
	if !e.boxDecl[key] {
		e.boxDecl[key] = true
		e.assume(app(">", r, "0"))
		e.assume(app("<=", r, "$top"))
		// distinct globals are distinct objects
		for k := range e.boxDecl {
			if strings.HasPrefix(k, "globax:") && k != key {
				e.assume(not(eq(r, sym(strings.TrimPrefix(k, "globax:")))))
			}
		}
	}
	return Val{T: r, Ty: tyOfGo(g.Type())}
}

// constVal translates an SSA constant.
func (e *Exec) constVal(c *ssa.Const) Val {
	ty := tyOfGo(c.Type())
	if c.Value == nil {
		e.ensureSortDecl(ty)
		return Val{T: ty.Zero(e.S), Ty: ty}
	}
	switch c.Value.Kind() {
	case constant.Bool:
		if constant.BoolVal(c.Value) {
			return Val{T: "true", Ty: ty}
		}
		return Val{T: "false", Ty: ty}
	case constant.String:
		return Val{T: smtStr(constant.StringVal(c.Value)), Ty: ty}
	case constant.Int:
		if ty.K == KReal {
			f, _ := constant.Float64Val(c.Value)
			return Val{T: fmt.Sprintf("%f", f), Ty: ty}
		}
		if v, ok := constant.Int64Val(c.Value); ok {
			return Val{T: smtInt(v), Ty: ty}
		}
		s := c.Value.ExactString()
		if strings.HasPrefix(s, "-") {
			return Val{T: "(- " + s[1:] + ")", Ty: ty}
		}
		return Val{T: s, Ty: ty}
	case constant.Float:
		f, _ := constant.Float64Val(c.Value)
		if ty.K == KInt {
			return Val{T: smtInt(int64(f)), Ty: ty}
		}
		return Val{T: fmt.Sprintf("%f", f), Ty: ty}
	}
	return Val{T: ty.Zero(e.S), Ty: ty}
}

// intRange returns the (lo, hi) bounds of a sized integer type.
func intRange(t types.Type) (string, string, bool) {
	b, ok := t.Underlying().(*types.Basic)
	if !ok || b.Info()&types.IsInteger == 0 {
		return "", "", false
	}
	switch b.Kind() {
	case types.Int8:
		return "(- 128)", "127", true
	case types.Int16:
		return "(- 32768)", "32767", true
	case types.Int32:
		return "(- 2147483648)", "2147483647", true
	case types.Int, types.Int64:
		return "(- 9223372036854775808)", "9223372036854775807", true
	case types.Uint8:
		return "0", "255", true
	case types.Uint16:
		return "0", "65535", true
	case types.Uint32:
		return "0", "4294967295", true
	case types.Uint, types.Uint64, types.Uintptr:
		return "0", "18446744073709551615", true
	}
	return "", "", false
}

// typeInv returns the type invariant of a freshly introduced value (assumed, never proved):
// what every well-typed Go value of that type satisfies in this memory model.
func (e *Exec) typeInv(st *State, v Val) string {
	if v.Ty == nil || v.T == "" {
		return "true"
	}
	top := e.get(st, topVar)
	switch v.Ty.K {
	case KRef, KMap, KFunc:
		return and(app(">=", v.T, "0"), app("<=", v.T, top))
	case KInt:
		if v.Ty.Go != nil {
			if lo, hi, ok := intRange(v.Ty.Go); ok {
				return and(app(">=", v.T, lo), app("<=", v.T, hi))
			}
		}
	case KSlice:
		return and(app(">=", app("sl-len", v.T), "0"), eq(app("sl-off", v.T), "0"), app(">=", app("sl-base", v.T), "0"),
			app("<=", app("sl-base", v.T), top), implies(eq(app("sl-base", v.T), "0"), eq(app("sl-len", v.T), "0")))
	case KIface:
		inv := and(app(">=", app("if-tag", v.T), "0"), app(">=", app("if-pay", v.T), "0"))
		if v.Ty.Go != nil {
			if s := e.sealedTags(v.Ty.Go); s != nil {
				var alts []string
				alts = append(alts, eq(app("if-tag", v.T), "0"))
				for _, t := range s {
					alts = append(alts, and(eq(app("if-tag", v.T), smtInt(int64(e.S.tagOf(t)))), app(">", app("if-pay", v.T), "0"), app("<=", app("if-pay", v.T), top)))
				}
				inv = and(inv, or(alts...))
			}
		}
		return inv
	}
	return "true"
}

// sealedTags: for a named interface with an unexported method (a protobuf one-of wrapper
// interface) the list of pointer types implementing it in its package. The type invariant of a
// value of such an interface is "nil, or a non-nil pointer of one of those" (A-PROTO-WF).
func (e *Exec) sealedTags(t types.Type) []types.Type {
	n, ok := t.(*types.Named)
	if !ok || n.Obj().Pkg() == nil {
		return nil
	}
	it, ok := n.Underlying().(*types.Interface)
	if !ok {
		return nil
	}
	sealed := false
	for i := 0; i < it.NumMethods(); i++ {
		if !it.Method(i).Exported() {
			sealed = true
		}
	}
	if !sealed || !strings.HasPrefix(n.Obj().Name(), "is") {
		return nil
	}
	var out []types.Type
	scope := n.Obj().Pkg().Scope()
	for _, name := range scope.Names() {
		tn, ok := scope.Lookup(name).(*types.TypeName)
		if !ok {
			continue
		}
		pt := types.NewPointer(tn.Type())
		if _, isStruct := tn.Type().Underlying().(*types.Struct); isStruct && types.Implements(pt, it) {
			out = append(out, pt)
		}
	}
	e.Assumptions["A-PROTO-WF: one-of fields hold nil or a non-nil generated wrapper ("+n.Obj().Name()+")"] = true
	return out
}
