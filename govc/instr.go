package main

import (
	"fmt"
	"go/token"
	"go/types"
	"strings"

	"golang.org/x/tools/go/ssa"
)

// panicObl records a run-time panic obligation.
func (e *Exec) panicObl(f *frame, st *State, what, cond string, ins ssa.Instruction) {
	if f.mode == "spec" {
		return
	}
	if cond == "true" {
		return
	}
	e.oblig(st, "panic", what, cond, ins.String(), e.position(ins.Pos()))
	// execution continues only if the instruction did not panic
	e.assume(implies(st.Reach, cond))
}

// instr executes one instruction; returns true if the rest of the block is not executed.
func (e *Exec) instr(f *frame, st *State, ins ssa.Instruction) bool {
	switch x := ins.(type) {
	case *ssa.DebugRef:
		return false
	case *ssa.Alloc:
		e.execAlloc(f, st, x)
	case *ssa.BinOp:
		e.bind(f, x, e.binop(f, st, x))
	case *ssa.UnOp:
		e.execUnOp(f, st, x)
	case *ssa.Call:
		res := e.call(f, st, x.Common(), x, x.Type())
		if x.Type() != nil {
			if tup, ok := x.Type().(*types.Tuple); ok && tup.Len() == 0 {
				return false
			}
		}
		if len(res.Tuple) > 0 || res.T != "" || res.Clo != nil {
			if len(res.Tuple) > 0 {
				f.vals[x] = res
			} else {
				e.bind(f, x, res)
			}
		}
	case *ssa.ChangeInterface:
		f.vals[x] = e.value(f, x.X)
	case *ssa.ChangeType:
		v := e.value(f, x.X)
		v.Ty = retype(v.Ty, x.Type())
		f.vals[x] = v
	case *ssa.Convert:
		e.execConvert(f, st, x)
	case *ssa.MultiConvert:
		v := e.value(f, x.X)
		v.Ty = retype(v.Ty, x.Type())
		f.vals[x] = v
	case *ssa.Extract:
		t := e.value(f, x.Tuple)
		if x.Index >= len(t.Tuple) {
			panic(execAbort{fmt.Sprintf("extract #%d of non-tuple in %s", x.Index, f.fn)})
		}
		f.vals[x] = t.Tuple[x.Index]
	case *ssa.Field:
		v := e.value(f, x.X)
		e.S.ensureStruct(v.Ty.Go)
		st2, ok := v.Ty.Go.Underlying().(*types.Struct)
		if !ok {
			panic(execAbort{"field of opaque struct"})
		}
		e.bind(f, x, Val{T: app(sym(structFieldSel(v.Ty.Go, x.Field)), v.T), Ty: tyOfGo(st2.Field(x.Field).Type())})
	case *ssa.FieldAddr:
		v := e.value(f, x.X)
		e.panicObl(f, st, "nilderef", not(eq(v.T, "0")), x)
		pt := x.X.Type().Underlying().(*types.Pointer)
		a := e.fieldAddr(v.T, pt.Elem(), x.Field)
		if a.Sub != "" {
			e.bind(f, x, Val{T: a.Sub, Ty: tyOfGo(x.Type())})
			if nv := f.vals[x].T; nv != a.Sub {
				e.subAlias[nv] = a.Sub
			}
		} else {
			f.vals[x] = Val{Ty: tyOfGo(x.Type()), Addr: a}
		}
		if v.Guard != nil && v.Guard.Elem {
			bv := f.vals[x]
			bv.Guard = v.Guard
			f.vals[x] = bv
		}
	case *ssa.Index:
		v := e.value(f, x.X)
		i := e.value(f, x.Index)
		switch v.Ty.K {
		case KString:
			e.panicObl(f, st, "index", and(app(">=", i.T, "0"), app("<", i.T, app("str.len", v.T))), x)
			e.bind(f, x, Val{T: app("str.to_code", app("str.at", v.T, i.T)), Ty: tyOfGo(x.Type())})
		default:
			// array value indexing: opaque
			e.bind(f, x, e.freshVal(st, f.prefix+x.Name(), x.Type()))
			e.abstracted(f, "array-value index")
		}
	case *ssa.IndexAddr:
		v := e.value(f, x.X)
		i := e.value(f, x.Index)
		switch t := x.X.Type().Underlying().(type) {
		case *types.Slice:
			e.panicObl(f, st, "index", and(app(">=", i.T, "0"), app("<", i.T, app("sl-len", v.T))), x)
			a := e.elemAddr(v, i.T, t.Elem())
			if a.Sub != "" {
				e.bind(f, x, Val{T: a.Sub, Ty: tyOfGo(x.Type())})
			} else {
				f.vals[x] = Val{Ty: tyOfGo(x.Type()), Addr: a}
			}
		case *types.Pointer:
			arr := t.Elem().Underlying().(*types.Array)
			e.panicObl(f, st, "nilderef", not(eq(v.T, "0")), x)
			e.panicObl(f, st, "index", and(app(">=", i.T, "0"), app("<", i.T, smtInt(arr.Len()))), x)
			a := e.arrElemAddr(v.T, i.T, arr.Elem())
			if a.Sub != "" {
				e.bind(f, x, Val{T: a.Sub, Ty: tyOfGo(x.Type())})
			} else {
				f.vals[x] = Val{Ty: tyOfGo(x.Type()), Addr: a}
			}
		default:
			panic(execAbort{"IndexAddr on " + x.X.Type().String()})
		}
	case *ssa.Lookup:
		v := e.value(f, x.X)
		k := e.value(f, x.Index)
		if mt, ok := x.X.Type().Underlying().(*types.Map); ok {
			e.guardMapUse(f, st, v, false, x)
			e.mapTypeTag(v.T, mt)
			val, pres := e.mapLookup(st, v.T, k.T, mt)
			e.assume(implies(st.Reach, implies(pres, app(">", e.mapLen(st, v.T), "0"))))
			if x.CommaOk {
				e.bind(f, x, Val{}) // placeholder
				vv := val
				if !isAtom(vv.T) {
					vv.T = e.defOrInline(e.S.freshName(f.prefix+x.Name()+".v"), vv.Ty.Sort(), vv.T)
				}
				pp := pres
				if !isAtom(pp) {
					pp = e.defOrInline(e.S.freshName(f.prefix+x.Name()+".ok"), "Bool", pp)
				}
				if g := elemGuard(v, mt); g != nil {
					vv.Guard = g
				}
				f.vals[x] = Val{Tuple: []Val{vv, {T: pp, Ty: tyBool}}, Ty: tyOfGo(x.Type())}
			} else {
				e.bind(f, x, val)
				if g := elemGuard(v, mt); g != nil {
					bv := f.vals[x]
					bv.Guard = g
					f.vals[x] = bv
				}
			}
		} else {
			// string index
			e.panicObl(f, st, "index", and(app(">=", k.T, "0"), app("<", k.T, app("str.len", v.T))), x)
			e.bind(f, x, Val{T: app("str.to_code", app("str.at", v.T, k.T)), Ty: tyOfGo(x.Type())})
		}
	case *ssa.MakeClosure:
		fn := x.Fn.(*ssa.Function)
		var bs []Val
		for _, b := range x.Bindings {
			bs = append(bs, e.value(f, b))
		}
		f.vals[x] = Val{T: "1", Ty: tyOfGo(x.Type()), Clo: &Closure{Fn: fn, Bindings: bs}}
	case *ssa.MakeInterface:
		v := e.value(f, x.X)
		if v.T == "" {
			panic(execAbort{"MakeInterface of address value"})
		}
		e.bind(f, x, e.makeIface(v, x.X.Type()))
	case *ssa.MakeMap:
		r := e.allocRef(st, "map")
		mt := x.Type().Underlying().(*types.Map)
		kty, vty := tyOfGo(mt.Key()), tyOfGo(mt.Elem())
		e.ensureSortDecl(vty)
		pn := mapPHeapName(kty, vty)
		e.regHeap(pn, "(Array Int (Array "+kty.Sort()+" Bool))")
		e.regHeap(mapVHeapName(kty, vty), "(Array Int (Array "+kty.Sort()+" "+vty.Sort()+"))")
		e.regHeap(mapLHeapName(), "(Array Int Int)")
		e.assume(eq(app("select", e.get(st, pn), r), "((as const (Array "+kty.Sort()+" Bool)) false)"))
		e.assume(eq(app("select", e.get(st, mapLHeapName()), r), "0"))
		e.allAllocs[r] = true
		f.vals[x] = Val{T: r, Ty: tyOfGo(x.Type())}
	case *ssa.MakeSlice:
		n := e.value(f, x.Len)
		e.panicObl(f, st, "makeslice", app(">=", n.T, "0"), x)
		r := e.allocRef(st, "arr")
		sl := x.Type().Underlying().(*types.Slice)
		ety := tyOfGo(sl.Elem())
		if !isStructValType(sl.Elem()) {
			name := elemHeapName(ety)
			e.regHeap(name, "(Array Int (Array Int "+ety.Sort()+"))")
			e.ensureSortDecl(ety)
			e.assume(eq(app("select", e.get(st, name), r), "((as const (Array Int "+ety.Sort()+")) "+ety.Zero(e.S)+")"))
		}
		e.allAllocs[r] = true
		e.bind(f, x, Val{T: app("mk-slice", r, "0", n.T), Ty: tyOfGo(x.Type())})
	case *ssa.MakeChan:
		e.abstracted(f, "make chan")
		f.vals[x] = e.freshVal(st, f.prefix+x.Name(), x.Type())
	case *ssa.MapUpdate:
		m := e.value(f, x.Map)
		k := e.value(f, x.Key)
		v := e.value(f, x.Value)
		e.panicObl(f, st, "nilmap", not(eq(m.T, "0")), x)
		mt := x.Map.Type().Underlying().(*types.Map)
		e.frameCheckMap(f, st, m.T, x)
		e.guardMapUse(f, st, m, true, x)
		e.mapTypeTag(m.T, mt)
		e.mapUpdate(st, m.T, k.T, v, mt)
	case *ssa.Range:
		v := e.value(f, x.X)
		it := &mapIter{m: v}
		if mt, ok := x.X.Type().Underlying().(*types.Map); ok {
			e.guardMapUse(f, st, v, false, x)
			it.mt = mt
			kty := tyOfGo(mt.Key())
			it.visited = fmt.Sprintf("IT.%s%s", f.prefix, x.Name())
			e.regHeap(it.visited, "(Array "+kty.Sort()+" Bool)")
			e.set(st, it.visited, "((as const (Array "+kty.Sort()+" Bool)) false)")
		} else {
			it.isStr = true
		}
		f.iters[x] = it
		f.vals[x] = Val{T: "0", Ty: tyRefAny}
	case *ssa.Next:
		e.execNext(f, st, x)
	case *ssa.Slice:
		e.execSlice(f, st, x)
	case *ssa.Store:
		p := e.value(f, x.Addr)
		v := e.value(f, x.Val)
		if p.Addr == nil {
			e.panicObl(f, st, "nilderef", not(eq(p.T, "0")), x)
		}
		a := e.addrOf(p)
		e.frameCheckStore(f, st, a, x)
		e.guardAccess(f, st, a, true, x)
		e.guardElemAccess(f, st, p, a, true, x)
		e.store(st, a, v)
		if al, ok := x.Addr.(*ssa.Alloc); ok {
			// a local cell: remember (conservatively, for the rest of the function) that it may hold an
			// object that was read out of a guarded map
			if v.Guard != nil && v.Guard.Elem {
				if f.cellGuard == nil {
					f.cellGuard = map[ssa.Value]*GuardTag{}
				}
				f.cellGuard[al] = v.Guard
			}
		}
	case *ssa.TypeAssert:
		e.execTypeAssert(f, st, x)
	case *ssa.If, *ssa.Jump:
		return false
	case *ssa.Return:
		var vals []Val
		for _, r := range x.Results {
			vals = append(vals, e.value(f, r))
		}
		f.rets = append(f.rets, retInfo{cond: st.Reach, vals: vals, st: st.clone(), pos: e.position(x.Pos())})
		return true
	case *ssa.Panic:
		e.panicObl(f, st, "explicit-panic", "false", x)
		return true
	case *ssa.RunDefers:
		for i := len(f.defers) - 1; i >= 0; i-- {
			d := f.defers[i]
			sub := st.clone()
			sub.Reach = and(st.Reach, d.reach)
			// execute the deferred call under the guard; merge effects back
			before := st.clone()
			e.call(f, sub, d.call, d.instr, nil)
			merged := e.merge([]string{and(st.Reach, d.reach), and(st.Reach, not(d.reach))}, []*State{sub, before})
			merged.Reach = st.Reach
			*st = *merged
		}
	case *ssa.Defer:
		// evaluate now the operands; remember the reach condition of the defer site
		f.defers = append(f.defers, deferred{reach: st.Reach, call: &x.Call, instr: x})
	case *ssa.Go:
		e.abstracted(f, "go statement")
		e.havocAll(st, e.isGhostName)
	case *ssa.Select:
		e.abstracted(f, "select")
		e.havocAll(st, e.isGhostName)
		f.vals[x] = e.freshVal(st, f.prefix+x.Name(), x.Type())
	case *ssa.Send:
		e.abstracted(f, "channel send")
	case *ssa.SliceToArrayPointer:
		e.abstracted(f, "slice to array pointer")
		f.vals[x] = e.freshVal(st, f.prefix+x.Name(), x.Type())
	default:
		panic(execAbort{fmt.Sprintf("unsupported instruction %T: %s", ins, ins)})
	}
	return false
}

func (e *Exec) isGhostName(name string) bool { return strings.HasPrefix(name, "G.") }

func (e *Exec) abstracted(f *frame, what string) {
	s := fmt.Sprintf("%s: %s", displayName(f.fn), what)
	for _, a := range e.Abstracted {
		if a == s {
			return
		}
	}
	e.Abstracted = append(e.Abstracted, s)
}

func retype(t *STy, gt types.Type) *STy {
	n := tyOfGo(gt)
	if n.Sort() == t.Sort() {
		return n
	}
	return t
}

func (e *Exec) execAlloc(f *frame, st *State, x *ssa.Alloc) {
	pt := x.Type().Underlying().(*types.Pointer)
	r := e.allocRef(st, f.prefix+x.Name())
	e.allAllocs[r] = true
	e.zeroInit(st, r, pt.Elem())
	e.ghostInit(st, r, pt.Elem())
	v := Val{T: r, Ty: tyOfGo(x.Type())}
	f.vals[x] = v
}

func (e *Exec) execUnOp(f *frame, st *State, x *ssa.UnOp) {
	v := e.value(f, x.X)
	switch x.Op {
	case token.MUL: // load
		if v.Addr == nil {
			e.panicObl(f, st, "nilderef", not(eq(v.T, "0")), x)
		}
		a := e.addrOf(v)
		val := e.load(st, a)
		val.Ty = retype(val.Ty, x.Type())
		tag := e.guardAccess(f, st, a, false, x)
		e.guardElemAccess(f, st, v, a, false, x)
		e.bind(f, x, val)
		if tag == nil {
			if al, ok := x.X.(*ssa.Alloc); ok && f.cellGuard != nil {
				tag = f.cellGuard[al]
			}
		}
		if tag != nil {
			bv := f.vals[x]
			bv.Guard = tag
			f.vals[x] = bv
		}
		if inv := e.typeInv(st, f.vals[x]); inv != "true" {
			e.assume(inv)
		}
	case token.NOT:
		e.bind(f, x, Val{T: not(v.T), Ty: v.Ty})
	case token.SUB:
		e.bind(f, x, Val{T: app("-", v.T), Ty: v.Ty})
	case token.ARROW:
		// A-SEQ: what other goroutines do while this one waits is not modelled (no interleaving
		// below call granularity); the received value is arbitrary
		e.abstracted(f, "channel receive (value arbitrary; effects of other goroutines while blocked not modelled, A-SEQ)")
		f.vals[x] = e.freshVal(st, f.prefix+x.Name(), x.Type())
	case token.XOR:
		f.vals[x] = e.freshVal(st, f.prefix+x.Name(), x.Type())
	default:
		panic(execAbort{"unsupported unary op " + x.Op.String()})
	}
}

func (e *Exec) binop(f *frame, st *State, x *ssa.BinOp) Val {
	a := e.value(f, x.X)
	b := e.value(f, x.Y)
	rty := tyOfGo(x.Type())
	if a.T == "" || b.T == "" {
		panic(execAbort{"binary operation on address values"})
	}
	switch x.Op {
	case token.EQL, token.NEQ:
		var t string
		switch a.Ty.K {
		case KIface:
			// comparison with nil interface constant: tag test
			if isNilConst(x.Y) {
				t = eq(app("if-tag", a.T), "0")
			} else if isNilConst(x.X) {
				t = eq(app("if-tag", b.T), "0")
			} else {
				t = eq(a.T, b.T)
			}
		case KSlice:
			if isNilConst(x.Y) {
				t = eq(app("sl-base", a.T), "0")
			} else {
				t = eq(app("sl-base", b.T), "0")
			}
		default:
			t = eq(a.T, b.T)
		}
		if x.Op == token.NEQ {
			t = not(t)
		}
		return Val{T: t, Ty: rty}
	case token.LSS, token.LEQ, token.GTR, token.GEQ:
		if a.Ty.K == KString {
			switch x.Op {
			case token.LSS:
				return Val{T: app("str.<", a.T, b.T), Ty: rty}
			case token.LEQ:
				return Val{T: app("str.<=", a.T, b.T), Ty: rty}
			case token.GTR:
				return Val{T: app("str.<", b.T, a.T), Ty: rty}
			default:
				return Val{T: app("str.<=", b.T, a.T), Ty: rty}
			}
		}
		op := map[token.Token]string{token.LSS: "<", token.LEQ: "<=", token.GTR: ">", token.GEQ: ">="}[x.Op]
		return Val{T: app(op, a.T, b.T), Ty: rty}
	case token.ADD:
		if a.Ty.K == KString {
			return Val{T: app("str.++", a.T, b.T), Ty: rty}
		}
		return Val{T: app("+", a.T, b.T), Ty: rty}
	case token.SUB:
		return Val{T: app("-", a.T, b.T), Ty: rty}
	case token.MUL:
		return Val{T: app("*", a.T, b.T), Ty: rty}
	case token.QUO:
		if rty.K == KReal {
			return Val{T: app("/", a.T, b.T), Ty: rty}
		}
		e.panicObl(f, st, "divzero", not(eq(b.T, "0")), x)
		// Go truncates toward zero
		q := ite(app(">=", a.T, "0"), app("div", a.T, b.T), app("-", app("div", app("-", a.T), b.T)))
		return Val{T: q, Ty: rty}
	case token.REM:
		e.panicObl(f, st, "divzero", not(eq(b.T, "0")), x)
		r := ite(app(">=", a.T, "0"), app("mod", a.T, b.T), app("-", app("mod", app("-", a.T), b.T)))
		return Val{T: r, Ty: rty}
	case token.LAND, token.LOR:
		// not generated by SSA (short-circuit is control flow), but handle bools
	}
	// bitwise and shifts: uninterpreted
	e.abstracted(f, "bit operation "+x.Op.String())
	return e.freshVal(st, f.prefix+x.Name(), x.Type())
}

func isNilConst(v ssa.Value) bool {
	c, ok := v.(*ssa.Const)
	return ok && c.Value == nil
}

func (e *Exec) execConvert(f *frame, st *State, x *ssa.Convert) {
	v := e.value(f, x.X)
	from, to := x.X.Type().Underlying(), x.Type().Underlying()
	fb, fok := from.(*types.Basic)
	tb, tok := to.(*types.Basic)
	switch {
	case fok && tok && fb.Info()&types.IsInteger != 0 && tb.Info()&types.IsInteger != 0:
		// integer conversion: treated as mathematical identity (A-ARITH) when ranges nest;
		// otherwise the truncation is made explicit.
		flo, fhi, _ := intRange(x.X.Type())
		tlo, thi, _ := intRange(x.Type())
		_ = flo
		_ = fhi
		_ = tlo
		_ = thi
		e.bind(f, x, Val{T: v.T, Ty: tyOfGo(x.Type())})
	case fok && tok && fb.Info()&types.IsInteger != 0 && tb.Info()&types.IsFloat != 0:
		e.bind(f, x, Val{T: app("to_real", v.T), Ty: tyOfGo(x.Type())})
	case fok && tok && fb.Info()&types.IsFloat != 0 && tb.Info()&types.IsInteger != 0:
		// truncation toward zero
		t := ite(app(">=", v.T, "0.0"), app("to_int", v.T), app("-", app("to_int", app("-", v.T))))
		e.bind(f, x, Val{T: t, Ty: tyOfGo(x.Type())})
	case fok && tok && fb.Info()&types.IsFloat != 0 && tb.Info()&types.IsFloat != 0:
		e.bind(f, x, Val{T: v.T, Ty: tyOfGo(x.Type())})
	case fok && fb.Info()&types.IsString != 0 && isByteSlice(to):
		// []byte(s): fresh slice whose ghost content is s (A-BYTES)
		r := e.allocRef(st, "bytes")
		sl := app("mk-slice", r, "0", app("str.len", v.T))
		e.bind(f, x, Val{T: sl, Ty: tyOfGo(x.Type())})
		e.assume(eq(e.bytesToString(f.vals[x].T), v.T))
	case tok && tb.Info()&types.IsString != 0 && isByteSlice(from):
		e.bind(f, x, Val{T: e.bytesToString(v.T), Ty: tyOfGo(x.Type())})
		e.assume(eq(app("str.len", f.vals[x].T), app("sl-len", v.T)))
		// string(b): character i is byte i of the slice's current content
		bty := tyOfGo(types.Typ[types.Uint8])
		hn := elemHeapName(bty)
		e.regHeap(hn, "(Array Int (Array Int Int))")
		e.assume(fmt.Sprintf("(forall ((i Int)) (! (=> (and (<= 0 i) (< i (sl-len %s))) (= (str.to_code (str.at %s i)) (select (select %s (sl-base %s)) i))) :pattern ((str.at %s i))))", v.T, f.vals[x].T, e.get(st, hn), v.T, f.vals[x].T))
	case fok && tok && fb.Info()&types.IsString != 0 && tb.Info()&types.IsString != 0:
		e.bind(f, x, Val{T: v.T, Ty: tyOfGo(x.Type())})
	default:
		e.abstracted(f, "conversion "+x.X.Type().String()+" -> "+x.Type().String())
		f.vals[x] = e.freshVal(st, f.prefix+x.Name(), x.Type())
	}
}

func isByteSlice(t types.Type) bool {
	s, ok := t.(*types.Slice)
	if !ok {
		return false
	}
	b, ok := s.Elem().Underlying().(*types.Basic)
	return ok && b.Kind() == types.Uint8
}

func (e *Exec) execSlice(f *frame, st *State, x *ssa.Slice) {
	v := e.value(f, x.X)
	var lo, hi string
	if x.Low != nil {
		lo = e.value(f, x.Low).T
	}
	if x.High != nil {
		hi = e.value(f, x.High).T
	}
	switch t := x.X.Type().Underlying().(type) {
	case *types.Basic: // string
		n := app("str.len", v.T)
		if lo == "" {
			lo = "0"
		}
		if hi == "" {
			hi = n
		}
		e.panicObl(f, st, "slicebounds", and(app("<=", "0", lo), app("<=", lo, hi), app("<=", hi, n)), x)
		e.bind(f, x, Val{T: app("str.substr", v.T, lo, app("-", hi, lo)), Ty: tyOfGo(x.Type())})
	case *types.Slice:
		n := app("sl-len", v.T)
		if lo == "" {
			lo = "0"
		}
		if hi == "" {
			hi = n
		}
		// upper bound is cap, which is not modelled: require hi <= len (stronger; sound for no-panic)
		e.panicObl(f, st, "slicebounds", and(app("<=", "0", lo), app("<=", lo, hi), app("<=", hi, n)), x)
		if lo == "0" {
			e.bind(f, x, Val{T: app("mk-slice", app("sl-base", v.T), "0", hi), Ty: tyOfGo(x.Type())})
		} else {
			// s[lo:hi] with lo != 0: modelled as a copy (reads exact; writes through the alias are not
			// propagated to the parent => reported as abstraction)
			e.abstracted(f, "sub-slice with non-zero low bound (copy semantics)")
			r := e.allocRef(st, "subslice")
			e.allAllocs[r] = true
			ety := tyOfGo(t.Elem())
			if !isStructValType(t.Elem()) {
				name := elemHeapName(ety)
				e.regHeap(name, "(Array Int (Array Int "+ety.Sort()+"))")
				e.ensureSortDecl(ety)
				E := e.get(st, name)
				e.assume(fmt.Sprintf("(forall ((i Int)) (=> (and (<= 0 i) (< i (- %s %s))) (= (select (select %s %s) i) (select (select %s (sl-base %s)) (+ %s i)))))", hi, lo, E, r, E, v.T, lo))
			}
			e.bind(f, x, Val{T: app("mk-slice", r, "0", app("-", hi, lo)), Ty: tyOfGo(x.Type())})
		}
	case *types.Pointer: // pointer to array
		arr := t.Elem().Underlying().(*types.Array)
		n := smtInt(arr.Len())
		if lo == "" {
			lo = "0"
		}
		if hi == "" {
			hi = n
		}
		e.panicObl(f, st, "nilderef", not(eq(v.T, "0")), x)
		e.panicObl(f, st, "slicebounds", and(app("<=", "0", lo), app("<=", lo, hi), app("<=", hi, n)), x)
		if lo != "0" {
			e.abstracted(f, "array sub-slice with non-zero low bound")
			e.bind(f, x, e.freshVal(st, f.prefix+x.Name(), x.Type()))
		} else {
			e.bind(f, x, Val{T: app("mk-slice", v.T, "0", hi), Ty: tyOfGo(x.Type())})
		}
	default:
		panic(execAbort{"slice of " + x.X.Type().String()})
	}
}

func (e *Exec) execTypeAssert(f *frame, st *State, x *ssa.TypeAssert) {
	v := e.value(f, x.X)
	var ok string
	var val Val
	if _, isIface := x.AssertedType.Underlying().(*types.Interface); isIface {
		// interface-to-interface assertion: succeeds iff non-nil and the dynamic type implements it
		okc := e.S.declare(e.S.freshName(f.prefix+x.Name()+".implements"), "Bool")
		ok = and(not(eq(app("if-tag", v.T), "0")), okc)
		val = Val{T: v.T, Ty: tyOfGo(x.AssertedType)}
		if it := x.AssertedType.Underlying().(*types.Interface); it.NumMethods() == 0 {
			ok = not(eq(app("if-tag", v.T), "0"))
		}
	} else {
		tag := smtInt(int64(e.S.tagOf(x.AssertedType)))
		ok = eq(app("if-tag", v.T), tag)
		val = e.unboxIface(v, tyOfGo(x.AssertedType))
	}
	zero := val.Ty.Zero(e.S)
	e.ensureSortDecl(val.Ty)
	if x.CommaOk {
		okn := ok
		if !isAtom(okn) {
			okn = e.defOrInline(e.S.freshName(f.prefix+x.Name()+".ok"), "Bool", ok)
		}
		vv := ite(okn, val.T, zero)
		if !isAtom(vv) {
			vv = e.defOrInline(e.S.freshName(f.prefix+x.Name()+".v"), val.Ty.Sort(), vv)
		}
		rv := Val{T: vv, Ty: val.Ty}
		if inv := e.typeInv(st, rv); inv != "true" {
			e.assume(inv)
		}
		f.vals[x] = Val{Tuple: []Val{rv, {T: okn, Ty: tyBool}}, Ty: tyOfGo(x.Type())}
		return
	}
	e.panicObl(f, st, "typeassert("+types.TypeString(x.AssertedType, func(p *types.Package) string { return p.Name() })+")", ok, x)
	e.bind(f, x, val)
	if inv := e.typeInv(st, f.vals[x]); inv != "true" {
		e.assume(implies(st.Reach, inv))
	}
}

func (e *Exec) execNext(f *frame, st *State, x *ssa.Next) {
	it := f.iters[x.Iter]
	if it == nil || it.isStr {
		e.abstracted(f, "range over string")
		f.vals[x] = e.freshVal(st, f.prefix+x.Name(), x.Type())
		return
	}
	kty, vty := tyOfGo(it.mt.Key()), tyOfGo(it.mt.Elem())
	e.ensureSortDecl(vty)
	k := e.S.declare(e.S.freshName(f.prefix+x.Name()+".k"), kty.Sort())
	okc := e.S.declare(e.S.freshName(f.prefix+x.Name()+".ok"), "Bool")
	vis := e.get(st, it.visited)
	e.mapTypeTag(it.m.T, it.mt)
	val, pres := e.mapLookup(st, it.m.T, k, it.mt)
	// ok => k is present and not visited; !ok => every present key has been visited
	e.assume(implies(st.Reach, implies(okc, and(pres, not(app("select", vis, k))))))
	pn := mapPHeapName(kty, vty)
	q := fmt.Sprintf("(forall ((kk %s)) (=> (and (not (= %s 0)) (select (select %s %s) kk)) (select %s kk)))", kty.Sort(), it.m.T, e.get(st, pn), it.m.T, vis)
	e.assume(implies(st.Reach, implies(not(okc), q)))
	e.setDef(st, it.visited, ite(okc, app("store", vis, k, "true"), vis))
	vv := val.T
	if !isAtom(vv) {
		vv = e.defOrInline(e.S.freshName(f.prefix+x.Name()+".v"), vty.Sort(), vv)
	}
	rv := Val{T: vv, Ty: vty}
	if inv := e.typeInv(st, rv); inv != "true" {
		e.assume(inv)
	}
	f.vals[x] = Val{Tuple: []Val{{T: okc, Ty: tyBool}, {T: k, Ty: kty}, rv}, Ty: tyOfGo(x.Type())}
}

// ghostInit: ghost state attached to freshly allocated objects of library types whose contents are
// modelled by a ghost variable (a zero strings.Builder is empty).
func (e *Exec) ghostInit(st *State, ref string, t types.Type) {
	switch types.TypeString(t, nil) {
	case "strings.Builder", "bytes.Buffer":
		if _, ok := e.W.Ghosts["Bld"]; ok {
			e.regHeap("G.Bld", "(Array Int String)")
			e.assume(eq(app("select", e.get(st, "G.Bld"), ref), "\"\""))
		}
	}
}


// ---- lock discipline (C16) ------------------------------------------------------------------------

// guardAccess: obligation for a load / store of a location declared `guarded` or `frozen`. The
// object is exempt while it is still local to this call (allocated after entry). For a guarded
// location holding a map the returned tag travels with the loaded map value, so that operations
// on the map are checked at the time they happen.
func (e *Exec) guardAccess(f *frame, st *State, a *Addr, write bool, ins ssa.Instruction) *GuardTag {
	if a == nil || a.Heap == "" {
		return nil
	}
	var g *GuardDecl
	what := ""
	obj := ""
	if strings.HasPrefix(a.Heap, "F.") {
		g = e.W.GuardField[a.Heap]
		what = strings.TrimPrefix(a.Heap, "F.")
		obj = a.Obj
	} else if strings.HasPrefix(a.Obj, "glob.") {
		g = e.W.GuardGlobal[a.Obj]
		what = strings.TrimPrefix(a.Obj, "glob.")
	}
	if g == nil {
		// inventory default: a map held by a field of a repository type or by a package-level
		// variable that has no declaration is treated as frozen — written only while its owner is
		// still local to the call (a shared map written without a declared lock is exactly the
		// runtime-fatal case of C16)
		if _, isMap := a.Ty.Go.Underlying().(*types.Map); isMap && (obj == "" || strings.HasPrefix(what, "internal_") || strings.HasPrefix(what, "cmd_")) && what != "" {
			return &GuardTag{Lock: "", Obj: obj, What: what + "(undeclared)"}
		}
		return nil
	}
	local := "false"
	if obj != "" {
		local = app(">", obj, e.top.entryTop)
	}
	if g.Frozen {
		if write {
			e.oblig(st, "guard", what+".frozen-write", local, "the location is read without synchronisation by concurrent requests: it may only be written while its object is still local to the call", e.position(ins.Pos()))
		}
		if _, isMap := a.Ty.Go.Underlying().(*types.Map); isMap {
			return &GuardTag{Lock: "", Obj: obj, What: what, Decl: g}
		}
		return nil
	}
	env := &Env{E: e, Vars: map[string]Val{}, St: st, Old: e.entry, Imports: g.Imports, Pkg: g.Pkg, Where: fmt.Sprintf("%s:%d guarded", g.File, g.Line)}
	if obj != "" {
		env.Vars["this"] = Val{T: obj, Ty: tyOfGo(types.NewPointer(e.W.GuardType[a.Heap]))}
	}
	lock := env.elab(g.By)
	held := e.heldTerm(st, lock.T)
	kind := "read"
	if write {
		kind = "write"
	} else {
		held = or(held, e.rheldTerm(st, lock.T)) // a read lock is enough to read
	}
	e.oblig(st, "guard", what+"."+kind, or(local, held), "access to a guarded location while its lock is held (or the object is still local)", e.position(ins.Pos()))
	if _, isMap := a.Ty.Go.Underlying().(*types.Map); isMap {
		return &GuardTag{Lock: lock.T, Obj: obj, What: what, Decl: g}
	}
	return nil
}

// guardMapUse: operation on a map value that came out of a guarded location.
func (e *Exec) guardMapUse(f *frame, st *State, m Val, write bool, ins ssa.Instruction) {
	if m.Guard == nil {
		return
	}
	local := "false"
	if m.Guard.Obj != "" {
		local = app(">", m.Guard.Obj, e.top.entryTop)
	}
	if m.Guard.Lock == "" {
		// frozen: read freely, never written once shared
		if write {
			e.oblig(st, "guard", m.Guard.What+".frozen-mapwrite", local, "the map is read without synchronisation by concurrent requests: it may only be written while its owner is still local to the call", e.position(ins.Pos()))
		}
		return
	}
	kind := "mapread"
	heldT := e.heldTerm(st, m.Guard.Lock)
	if write {
		kind = "mapwrite"
	} else {
		heldT = or(heldT, e.rheldTerm(st, m.Guard.Lock))
	}
	e.oblig(st, "guard", m.Guard.What+"."+kind, or(local, heldT), "operation on a guarded map while its lock is held", e.position(ins.Pos()))
}

func (e *Exec) rheldTerm(st *State, lock string) string {
	e.regHeap("G.$rheld", "(Array Int Bool)")
	return app("select", e.get(st, "G.$rheld"), lock)
}

func (e *Exec) heldTerm(st *State, lock string) string {
	e.regHeap("G.$held", "(Array Int Bool)")
	return app("select", e.get(st, "G.$held"), lock)
}

const noLocks = "((as const (Array Int Bool)) false)"


// elemGuard: an object whose reference is read out of a guarded map (map[K]*T) is protected by the
// map's lock as long as it is reachable only through the map: accesses to its fields through that
// reference need the lock too (read lock to read, write lock to write).
func elemGuard(m Val, mt *types.Map) *GuardTag {
	if m.Guard == nil || m.Guard.Lock == "" {
		return nil
	}
	if _, ok := mt.Elem().Underlying().(*types.Pointer); !ok {
		return nil
	}
	return &GuardTag{Lock: m.Guard.Lock, Obj: m.Guard.Obj, What: m.Guard.What + "[]", Decl: m.Guard.Decl, Elem: true}
}

func (e *Exec) guardElemAccess(f *frame, st *State, addr Val, a *Addr, write bool, ins ssa.Instruction) {
	if addr.Guard == nil || !addr.Guard.Elem || a == nil || a.Heap == "" {
		return
	}
	held := e.heldTerm(st, addr.Guard.Lock)
	kind := "read"
	if write {
		kind = "write"
	} else {
		held = or(held, e.rheldTerm(st, addr.Guard.Lock))
	}
	local := app(">", a.Obj, e.top.entryTop)
	e.oblig(st, "guard", addr.Guard.What+"."+strings.TrimPrefix(a.Heap, "F.")+"."+kind, or(local, held), "access to an object held in a guarded map while the map's lock is held", e.position(ins.Pos()))
}
