package main

// replayObligation tries to turn a failed obligation into a concrete failing input on the real
// code. Returns "confirmed", "not-reproduced" or "no-model". Always writes the replay file.
func replayObligation(p *Program, w *World, o *Obligation, replayPath, outDir string, seed int) string {
	rec := map[string]interface{}{
		"obligation":      o.Name,
		"kind":            o.Kind,
		"clause":          o.Src,
		"where":           o.Pos,
		"solver_result":   o.Result,
		"solver":          o.Solver,
		"verifier_output": trunc(o.Output, 4000),
		"smt_script":      outDir + "/" + sanitizeFile(o.Name) + ".<solver>.smt2",
		"outcome":         "no-model",
	}
	writeJSON(replayPath, rec)
	return "no-model"
}
