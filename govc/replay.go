package main

import (
	"bytes"
	"context"
	"encoding/json"
	"fmt"
	"go/types"
	"os"
	"os/exec"
	"path/filepath"
	"sort"
	"strconv"
	"strings"
	"time"

	"golang.org/x/tools/go/ssa"
)

// ---------------------------------------------------------------------------
// S-expressions (solver output)
// ---------------------------------------------------------------------------

type sexp struct {
	atom string
	list []*sexp
	isL  bool
}

func (s *sexp) String() string {
	if !s.isL {
		return s.atom
	}
	var parts []string
	for _, x := range s.list {
		parts = append(parts, x.String())
	}
	return "(" + strings.Join(parts, " ") + ")"
}

func parseSexps(src string) []*sexp {
	var out []*sexp
	i := 0
	var parse func() *sexp
	skip := func() {
		for i < len(src) && (src[i] == ' ' || src[i] == '\n' || src[i] == '\t' || src[i] == '\r') {
			i++
		}
	}
	parse = func() *sexp {
		skip()
		if i >= len(src) {
			return nil
		}
		switch src[i] {
		case '(':
			i++
			s := &sexp{isL: true}
			for {
				skip()
				if i >= len(src) {
					return s
				}
				if src[i] == ')' {
					i++
					return s
				}
				c := parse()
				if c == nil {
					return s
				}
				s.list = append(s.list, c)
			}
		case '"':
			j := i + 1
			for j < len(src) {
				if src[j] == '"' {
					if j+1 < len(src) && src[j+1] == '"' {
						j += 2
						continue
					}
					break
				}
				j++
			}
			s := &sexp{atom: src[i : j+1]}
			i = j + 1
			return s
		case '|':
			j := i + 1
			for j < len(src) && src[j] != '|' {
				j++
			}
			s := &sexp{atom: src[i : j+1]}
			i = j + 1
			return s
		case ')':
			i++
			return nil
		}
		j := i
		for j < len(src) && !strings.ContainsRune(" \n\t\r()", rune(src[j])) {
			j++
		}
		s := &sexp{atom: src[i:j]}
		i = j
		return s
	}
	for i < len(src) {
		s := parse()
		if s != nil {
			out = append(out, s)
		}
	}
	return out
}

// smtStringValue decodes an SMT-LIB string literal to bytes (code points must be < 256).
func smtStringValue(lit string) (string, bool) {
	if len(lit) < 2 || lit[0] != '"' {
		return "", false
	}
	s := lit[1 : len(lit)-1]
	s = strings.ReplaceAll(s, "\"\"", "\"")
	var b []byte
	for i := 0; i < len(s); {
		if s[i] == '\\' && i+1 < len(s) && s[i+1] == 'u' {
			// \u{X..} or \uXXXX
			if i+2 < len(s) && s[i+2] == '{' {
				j := strings.IndexByte(s[i:], '}')
				if j > 0 {
					v, err := strconv.ParseInt(s[i+3:i+j], 16, 32)
					if err == nil {
						if v > 255 {
							return "", false
						}
						b = append(b, byte(v))
						i += j + 1
						continue
					}
				}
			} else if i+6 <= len(s) {
				v, err := strconv.ParseInt(s[i+2:i+6], 16, 32)
				if err == nil {
					if v > 255 {
						return "", false
					}
					b = append(b, byte(v))
					i += 6
					continue
				}
			}
		}
		if s[i] == '\\' && i+1 < len(s) && s[i+1] == 'x' && i+4 <= len(s) {
			v, err := strconv.ParseInt(s[i+2:i+4], 16, 32)
			if err == nil {
				b = append(b, byte(v))
				i += 4
				continue
			}
		}
		b = append(b, s[i])
		i++
	}
	return string(b), true
}

func sexpInt(s *sexp) (int64, bool) {
	if !s.isL {
		v, err := strconv.ParseInt(s.atom, 10, 64)
		return v, err == nil
	}
	if len(s.list) == 2 && s.list[0].atom == "-" {
		v, ok := sexpInt(s.list[1])
		return -v, ok
	}
	return 0, false
}

// ---------------------------------------------------------------------------
// model exploration by pinned get-value rounds
// ---------------------------------------------------------------------------

type modelSession struct {
	base    string   // script body (declarations + assertions incl. negated goal)
	pins    []string // (assert (= term value)) accumulated
	solver  []string // solvers allowed to produce models
	outDir  string
	name    string
	seed    int
	rounds  int
	timeout int
	values  map[string]*sexp
	failed  string
	// candidate: some round was answered "unknown" with values (not a verified model)
	candidate bool
}

func (m *modelSession) getValues(terms []string) bool {
	var need []string
	for _, t := range terms {
		if _, ok := m.values[t]; !ok {
			need = append(need, t)
		}
	}
	if len(need) == 0 {
		return true
	}
	m.rounds++
	body := m.base + strings.Join(m.pins, "\n") + "\n"
	tail := "(check-sat)\n(get-value (" + strings.Join(need, " ") + "))\n"
	type ans struct {
		name string
		out  string
	}
	ctx, cancel := context.WithCancel(context.Background())
	defer cancel()
	ch := make(chan ans, len(solvers))
	n := 0
	for _, s := range solvers {
		if !contains(m.solver, s.name) {
			continue
		}
		n++
		go func(s solverSpec) {
			file := filepath.Join(m.outDir, sanitizeFile(fmt.Sprintf("%s.model%d.%s", m.name, m.rounds, s.name))+".smt2")
			os.WriteFile(file, []byte(s.pre(m.seed)+body+tail), 0o644)
			cctx, ccancel := context.WithTimeout(ctx, time.Duration(m.timeout+2)*time.Second)
			defer ccancel()
			cmd := exec.CommandContext(cctx, s.bin, append(s.args(m.timeout, m.seed), file)...)
			var out bytes.Buffer
			cmd.Stdout = &out
			cmd.Stderr = &out
			cmd.Run()
			ch <- ans{s.name, strings.TrimSpace(out.String())}
		}(s)
	}
	for i := 0; i < n; i++ {
		a := <-ch
		o := a.out
		// "unknown" answers that still come with values are candidate models (cvc5 with quantifiers):
		// acceptable here because the real code, not the solver, confirms a replay.
		if !strings.HasPrefix(o, "sat") && !(strings.HasPrefix(o, "unknown") && strings.Contains(o, "((")) {
			m.failed += a.name + ": " + trunc(o, 120) + "; "
			continue
		}
		if strings.HasPrefix(o, "unknown") {
			m.candidate = true
		}
		ss := parseSexps(strings.TrimPrefix(strings.TrimPrefix(o, "sat"), "unknown"))
		if len(ss) == 0 || !ss[0].isL {
			m.failed += a.name + ": cannot parse get-value output; "
			continue
		}
		got := 0
		for i, pair := range ss[0].list {
			if pair.isL && len(pair.list) == 2 && i < len(need) {
				m.values[need[i]] = pair.list[1]
				m.pins = append(m.pins, fmt.Sprintf("(assert (= %s %s))", need[i], pair.list[1].String()))
				got++
			}
		}
		if got == len(need) {
			// stay with this solver so that later rounds extend the same kind of model
			m.solver = []string{a.name}
			cancel()
			return true
		}
	}
	return false
}

// ---------------------------------------------------------------------------
// Go value construction from the model
// ---------------------------------------------------------------------------

type goBuilder struct {
	m       *modelSession
	e       *Exec
	st      *State
	stmts   []string
	imports map[string]string // path -> alias
	objs    map[string]string // "type#id" -> variable name
	nvar    int
	pkg     *types.Package
	err     string
	maxLen  int
	bound   int
	strs    []string
}

func (g *goBuilder) qual(p *types.Package) string {
	if p == g.pkg {
		return ""
	}
	if a, ok := g.imports[p.Path()]; ok {
		return a
	}
	a := fmt.Sprintf("rp%d", len(g.imports))
	g.imports[p.Path()] = a
	return a
}

func (g *goBuilder) typeStr(t types.Type) string { return types.TypeString(t, g.qual) }

func (g *goBuilder) fail(f string, a ...interface{}) string {
	if g.err == "" {
		g.err = fmt.Sprintf(f, a...)
	}
	return "nil"
}

func (g *goBuilder) newVar() string {
	g.nvar++
	return fmt.Sprintf("v%d", g.nvar)
}

func exportedOrLocal(obj types.Object, pkg *types.Package) bool {
	return obj.Exported() || obj.Pkg() == pkg
}

// witness expressions for opaque interface / handle types.
func (g *goBuilder) witness(t types.Type) (string, bool) {
	switch types.TypeString(t, nil) {
	case "github.com/tetratelabs/telemetry.Logger":
		a := g.qualPath("github.com/tetratelabs/telemetry")
		return a + ".NoopLogger()", true
	case "context.Context":
		a := g.qualPath("context")
		return a + ".Background()", true
	}
	return "", false
}

func (g *goBuilder) qualPath(path string) string {
	if a, ok := g.imports[path]; ok {
		return a
	}
	a := fmt.Sprintf("rp%d", len(g.imports))
	g.imports[path] = a
	return a
}

// build returns a Go expression for the value of SMT term `term` of Go type t.
func (g *goBuilder) build(term string, t types.Type) string {
	if g.err != "" {
		return "nil"
	}
	if w, ok := g.witness(t); ok {
		return w
	}
	if _, have := g.m.values[term]; !have {
		// ground size restrictions of the bounded instance, on exactly the terms that are explored
		switch t.Underlying().(type) {
		case *types.Slice:
			g.m.pins = append(g.m.pins, fmt.Sprintf("(assert (<= (sl-len %s) %d))", term, g.bound))
		case *types.Basic:
			if tyOfGo(t).K == KString {
				g.m.pins = append(g.m.pins, fmt.Sprintf("(assert (<= (str.len %s) 8))", term), fmt.Sprintf("(assert (str.in_re %s (re.* (re.range \"\\u{20}\" \"\\u{7e}\"))))", term))
			}
		}
	}
	if !g.m.getValues([]string{term}) {
		return g.fail("no value for %s: %s", term, g.m.failed)
	}
	val := g.m.values[term]
	if isTimeType(t) {
		return g.fail("time.Time input not supported in replay")
	}
	switch u := t.Underlying().(type) {
	case *types.Basic:
		switch {
		case u.Info()&types.IsBoolean != 0:
			return g.conv(t, val.atom)
		case u.Info()&types.IsString != 0:
			s, ok := smtStringValue(val.atom)
			if !ok {
				return g.fail("string value not representable: %s", val.atom)
			}
			g.strs = append(g.strs, s)
			return g.conv(t, strconv.Quote(s))
		case u.Info()&types.IsInteger != 0:
			v, ok := sexpInt(val)
			if !ok {
				return g.fail("bad int %s", val)
			}
			return g.conv(t, strconv.FormatInt(v, 10))
		}
		return g.fail("unsupported basic type %s", t)
	case *types.Pointer:
		id, ok := sexpInt(val)
		if !ok {
			return g.fail("bad ref %s", val)
		}
		if id == 0 {
			return "nil"
		}
		st, isStruct := u.Elem().Underlying().(*types.Struct)
		if !isStruct || isTimeType(u.Elem()) {
			return g.fail("pointer to non-struct %s in replay", t)
		}
		key := fmt.Sprintf("%s#%d", types.TypeString(u.Elem(), nil), id)
		if v, ok := g.objs[key]; ok {
			return v
		}
		v := g.newVar()
		g.objs[key] = v
		g.stmts = append(g.stmts, fmt.Sprintf("%s := &%s{}", v, g.typeStr(u.Elem())))
		ref := smtInt(id)
		for i := 0; i < st.NumFields(); i++ {
			f := st.Field(i)
			if !exportedOrLocal(f, g.pkg) {
				continue
			}
			a := g.e.fieldAddr(ref, u.Elem(), i)
			if a.Sub != "" {
				continue // embedded struct values: left zero
			}
			if !g.e.S.declared[a.Heap] {
				continue // the function never looks at this field: left zero
			}
			ft := g.e.load(g.st, a)
			fe := g.build(ft.T, f.Type())
			if g.err != "" {
				return "nil"
			}
			if fe != zeroGo(f.Type()) {
				g.stmts = append(g.stmts, fmt.Sprintf("%s.%s = %s", v, f.Name(), fe))
			}
		}
		return v
	case *types.Slice:
		if !val.isL || len(val.list) != 4 {
			return g.fail("bad slice value %s", val)
		}
		base, _ := sexpInt(val.list[1])
		n, _ := sexpInt(val.list[3])
		if base == 0 {
			return "nil"
		}
		if n > int64(g.maxLen) {
			return g.fail("slice of length %d in model (limit %d)", n, g.maxLen)
		}
		var elems []string
		sv := Val{T: term, Ty: tyOfGo(t)}
		for i := int64(0); i < n; i++ {
			a := g.e.elemAddr(sv, strconv.FormatInt(i, 10), u.Elem())
			if a.Sub != "" {
				return g.fail("slice of struct values in replay")
			}
			ev := g.e.load(g.st, a)
			elems = append(elems, g.build(ev.T, u.Elem()))
		}
		return fmt.Sprintf("%s{%s}", g.typeStr(t), strings.Join(elems, ", "))
	case *types.Interface:
		if !val.isL || len(val.list) != 3 {
			return g.fail("bad interface value %s", val)
		}
		tag, _ := sexpInt(val.list[1])
		if tag == 0 {
			return "nil"
		}
		if int(tag) > len(g.e.S.tagNames) {
			return g.fail("interface value with unknown dynamic type tag %d", tag)
		}
		var dyn types.Type
		dyn = g.e.S.tagTypes[tag-1]
		if dyn == nil {
			return g.fail("no type for tag %d", tag)
		}
		if _, isPtr := dyn.Underlying().(*types.Pointer); isPtr {
			return g.build(app("if-pay", term), dyn)
		}
		uv := g.e.unboxIface(Val{T: term, Ty: tyIface}, tyOfGo(dyn))
		return g.build(uv.T, dyn)
	case *types.Map:
		id, _ := sexpInt(val)
		if id == 0 {
			return "nil"
		}
		// only the keys the model search was restricted to (see mapKeyCandidates)
		keys := g.e.mapKeyCands[term]
		v := g.newVar()
		g.stmts = append(g.stmts, fmt.Sprintf("%s := %s{}", v, g.typeStr(t)))
		for _, k := range keys {
			mv, pres := g.e.mapLookup(g.st, term, k, u)
			if !g.m.getValues([]string{pres}) {
				return g.fail("no value for map presence")
			}
			if g.m.values[pres].atom != "true" {
				continue
			}
			ke := g.build(k, u.Key())
			ve := g.build(mv.T, u.Elem())
			g.stmts = append(g.stmts, fmt.Sprintf("%s[%s] = %s", v, ke, ve))
		}
		return v
	case *types.Struct:
		return g.fail("struct value input %s not supported in replay", t)
	}
	return g.fail("unsupported type %s in replay", t)
}

func (g *goBuilder) conv(t types.Type, lit string) string {
	if _, named := t.(*types.Named); named {
		return fmt.Sprintf("%s(%s)", g.typeStr(t), lit)
	}
	return lit
}

func zeroGo(t types.Type) string {
	switch u := t.Underlying().(type) {
	case *types.Basic:
		switch {
		case u.Info()&types.IsBoolean != 0:
			if _, named := t.(*types.Named); named {
				return ""
			}
			return "false"
		case u.Info()&types.IsString != 0:
			if _, named := t.(*types.Named); named {
				return ""
			}
			return `""`
		case u.Info()&types.IsInteger != 0:
			if _, named := t.(*types.Named); named {
				return ""
			}
			return "0"
		}
	case *types.Pointer, *types.Slice, *types.Map, *types.Interface:
		return "nil"
	}
	return ""
}

// ---------------------------------------------------------------------------
// replay of one failed obligation
// ---------------------------------------------------------------------------

// replayObligation tries to turn a failed obligation into a concrete failing input on the real
// code. Returns "confirmed", "not-reproduced" or "no-model". Always writes the replay file.
func replayObligation(p *Program, w *World, o *Obligation, replayPath, outDir string, seed int) string {
	rec := map[string]interface{}{
		"obligation":      o.Name,
		"kind":            o.Kind,
		"clause":          o.Src,
		"where":           o.Pos,
		"solver_result":   o.Result,
		"solver":          o.Solver,
		"verifier_output": trunc(o.Output, 4000),
		"smt_script":      outDir + "/" + sanitizeFile(o.Name) + ".<solver>.smt2",
		"outcome":         "no-model",
	}
	outcome := "no-model"
	defer func() {
		rec["outcome"] = outcome
		writeJSON(replayPath, rec)
	}()
	// scenario replays: obligations whose counterexample needs a scripted environment (a fake IdP,
	// a minted token) name a fixed scenario test; it is run against the current tree.
	if sc := findScenario(o.Name); sc != nil {
		rec["scenario"] = sc.What
		rec["scenario_test"] = sc.File
		src, rerr := os.ReadFile(filepath.Join(verifDir, "replay", "scenarios", sc.File))
		if rerr == nil {
			var out string
			var terr error
			if c, ok := scenarioCache[sc.Run]; ok {
				out = c
			} else {
				out, terr = runOverlayFile(p, sc.Pkg, string(src), "^"+sc.Run+"$")
				scenarioCache[sc.Run] = out
			}
			rec["go_test"] = string(src)
			rec["go_test_pkg"] = sc.Pkg
			rec["go_test_run"] = sc.Run
			rec["go_test_output"] = trunc(out, 6000)
			if terr != nil {
				rec["go_test_error"] = terr.Error()
			}
			if strings.Contains(out, "GOVC-SCENARIO confirmed") {
				outcome = "confirmed"
				rec["confirmed_by"] = "scenario test on the real code: " + firstLineWith(out, "GOVC-SCENARIO confirmed")
				return outcome
			}
			outcome = "not-reproduced"
			return outcome
		}
		rec["note"] = "scenario file missing: " + rerr.Error()
	}
	e := o.Exec
	if e == nil || e.curTop == nil || o.Kind == "lemma" || o.Kind == "cover" || o.Kind == "frame" {
		rec["note"] = "no replay driver for this obligation kind"
		return outcome
	}
	fn := e.curTop
	func() {
		defer func() {
			if r := recover(); r != nil {
				rec["note"] = fmt.Sprintf("replay construction failed: %v", r)
			}
		}()
		// bounded instances (DESIGN 4.4): the search for a replayable input restricts slices to
		// length <= k and strings to length <= 8 of printable ASCII. This is only a search for an
		// input to replay; its failure never turns a failed obligation into a pass.
		var m *modelSession
		var g *goBuilder
		var argExprs []string
		for _, k := range []int{2, 3} {
			// regenerate the function's VCs as a bounded instance and take the same obligation
			br := genFuncK(p, w, fn, w.contractFor(fn), nil, k)
			var bo *Obligation
			for _, cand := range br.Obls {
				if cand.Name == o.Name {
					bo = cand
				}
			}
			if bo == nil {
				rec["note"] = "bounded instance does not contain the obligation"
				return
			}
			e = bo.Exec
			o2 := *bo
			o2.Extra = append(append([]string{}, lateDecls(bo)...), bo.Extra...)
			m = &modelSession{base: scriptFor(&o2), solver: []string{"z3-new", "z3", "cvc5"}, outDir: outDir, name: fmt.Sprintf("%s.k%d", o.Name, k), seed: seed, timeout: 20, values: map[string]*sexp{}}
			g = &goBuilder{m: m, e: e, st: e.entry, imports: map[string]string{}, objs: map[string]string{}, pkg: fn.Pkg.Pkg, maxLen: 6, bound: k}
			argExprs = nil
			for i, prm := range fn.Params {
				argExprs = append(argExprs, g.build(e.topArgs[i].T, prm.Type()))
			}
			if g.err == "" {
				rec["bounded_instance"] = fmt.Sprintf("slices <= %d, strings <= 8 printable", k)
				break
			}
		}
		if g.err != "" {
			rec["note"] = "model could not be turned into Go values: " + g.err
			if m.failed != "" {
				rec["model_search"] = m.failed
			}
			return
		}
		inputPins := append([]string{}, m.pins...)
		pins := map[string]string{}
		for k, v := range m.values {
			pins[k] = v.String()
		}
		rec["model"] = pins
		rec["model_rounds"] = m.rounds
		rec["model_is_candidate_only"] = m.candidate
		test, runPat := genReplayTest(fn, g, argExprs, e.usesAbstract())
		rec["go_test"] = test
		out, err := runOverlayTest(p, fn, test, runPat)
		rec["go_test_output"] = trunc(out, 6000)
		if err != nil {
			rec["go_test_error"] = err.Error()
		}
		panicked := strings.Contains(out, "GOVC-REPLAY panic=true")
		switch o.Kind {
		case "panic":
			if panicked {
				outcome = "confirmed"
				rec["confirmed_by"] = "the real function panics on the model's input"
			} else {
				outcome = "not-reproduced"
			}
		case "post":
			if panicked {
				outcome = "not-reproduced"
				rec["note"] = "real function panicked"
				return
			}
			observed := parseObserved(out)
			rec["observed_results"] = observed
			// concrete evaluation of the clause by the solver: inputs pinned to the replayed values,
			// results pinned to what the real code returned, abstract predicates pinned to what the
			// real library answered. A genuine "sat" means the real behaviour violates the clause.
			var final []string
			final = append(final, inputPins...)
			okPins := true
			for i, rv := range o.RetVals {
				if i >= len(observed) {
					okPins = false
					break
				}
				switch {
				case rv.T == "":
					continue
				case rv.Ty.K == KBool:
					final = append(final, fmt.Sprintf("(assert (= %s %s))", rv.T, observed[i]))
				case rv.Ty.K == KInt && rv.Ty.Go != nil:
					n, perr := strconv.ParseInt(observed[i], 10, 64)
					if perr != nil {
						okPins = false
					}
					final = append(final, fmt.Sprintf("(assert (= %s %s))", rv.T, smtInt(n)))
				case rv.Ty.K == KString:
					sv, perr := strconv.Unquote(observed[i])
					if perr != nil {
						okPins = false
					}
					final = append(final, fmt.Sprintf("(assert (= %s %s))", rv.T, smtStr(sv)))
				default:
					rec["note"] = "result of a type whose observed value cannot be pinned; clause evaluated with the result left free"
				}
			}
			final = append(final, parseAbstractPins(out)...)
			if !okPins {
				outcome = "not-reproduced"
				rec["note"] = "observed results could not be parsed"
				return
			}
			o3 := *o
			o3.Extra = append(append(append([]string{}, lateDecls(o)...), o.Extra...), final...)
			r := solve(outDir, o.Name+".replay-eval", scriptFor(&o3), 30, seed, false, false, nil)
			rec["clause_evaluation"] = map[string]interface{}{"query": "inputs, observed results and observed library answers pinned; is the negated clause satisfiable?", "result": r.Result, "solver": r.Solver}
			if r.Result == "sat" {
				outcome = "confirmed"
				rec["confirmed_by"] = "for these concrete inputs the real function returned the observed values, and the clause evaluates to false on them"
			} else {
				outcome = "not-reproduced"
			}
		default:
			outcome = "not-reproduced"
			rec["note"] = "no oracle for obligation kind " + o.Kind + "; the input was run on the real code (see output)"
		}
	}()
	return outcome
}

// boundExtras: size restrictions for the counter-model search.
func boundExtras(e *Exec, fn *ssa.Function, k, strLen int) []string {
	var out []string
	printable := fmt.Sprintf("(re.* (re.range \"\\u{20}\" \"\\u{7e}\"))")
	for i, prm := range fn.Params {
		v := e.topArgs[i]
		switch v.Ty.K {
		case KSlice:
			out = append(out, fmt.Sprintf("(assert (<= (sl-len %s) %d))", v.T, k))
		case KString:
			out = append(out, fmt.Sprintf("(assert (<= (str.len %s) %d))", v.T, strLen), fmt.Sprintf("(assert (str.in_re %s %s))", v.T, printable))
		}
		_ = prm
	}
	for _, name := range sortedKeys(e.heapSort) {
		if !e.S.declared[name] {
			continue
		}
		switch e.heapSort[name] {
		case "(Array Int Slice)":
			out = append(out, fmt.Sprintf("(assert (forall ((o Int)) (<= (sl-len (select %s o)) %d)))", sym(name), k))
		case "(Array Int String)":
			out = append(out, fmt.Sprintf("(assert (forall ((o Int)) (and (<= (str.len (select %s o)) %d) (str.in_re (select %s o) %s))))", sym(name), strLen, sym(name), printable))
		}
	}
	return out
}

// lateDecls: declarations that were added to the function's script after this obligation was
// recorded (harmless to include; needed when the model walk mentions entry-state symbols that
// the obligation's prefix did not declare).
func lateDecls(o *Obligation) []string {
	var out []string
	for _, l := range o.Script.lines[o.Prefix:] {
		if strings.HasPrefix(l, "(declare-") {
			out = append(out, l)
		}
	}
	return out
}

var scenarioCache = map[string]string{}

type scenario struct {
	Match string `json:"match"`
	Pkg   string `json:"pkg"`
	File  string `json:"file"`
	Run   string `json:"run"`
	What  string `json:"what"`
}

func findScenario(obl string) *scenario {
	b, err := os.ReadFile(filepath.Join(verifDir, "replay", "scenarios", "scenarios.json"))
	if err != nil {
		return nil
	}
	var scs []scenario
	if json.Unmarshal(b, &scs) != nil {
		return nil
	}
	for i := range scs {
		if strings.HasPrefix(obl, scs[i].Match) {
			return &scs[i]
		}
	}
	return nil
}

func firstLineWith(out, needle string) string {
	for _, l := range strings.Split(out, "\n") {
		if strings.Contains(l, needle) {
			return strings.TrimSpace(l)
		}
	}
	return ""
}

// runOverlayFile injects a test file into package dir rel (relative to the repo root).
func runOverlayFile(p *Program, rel, test, runPat string) (string, error) {
	dir, err := os.MkdirTemp("", "govc-replay-")
	if err != nil {
		return "", err
	}
	defer os.RemoveAll(dir)
	testFile := filepath.Join(dir, "zz_govc_replay_test.go")
	os.WriteFile(testFile, []byte(test), 0o644)
	ov := map[string]map[string]string{"Replace": {filepath.Join(p.RepoDir, rel, "zz_govc_replay_test.go"): testFile}}
	ob, _ := json.Marshal(ov)
	ovFile := filepath.Join(dir, "overlay.json")
	os.WriteFile(ovFile, ob, 0o644)
	ctx, cancel := context.WithTimeout(context.Background(), 240*time.Second)
	defer cancel()
	args := []string{"test", "-overlay", ovFile, "-vet=off", "-count=1", "-timeout", "60s", "-run", runPat, "-v"}
	race := strings.Contains(test, "// govc:race")
	if race {
		// scenario for a data race: run under the happens-before race detector
		args = append(args, "-race")
	}
	cmd := exec.CommandContext(ctx, "go", append(args, "./"+rel)...)
	cmd.Dir = p.RepoDir
	cmd.Env = append(os.Environ(), "GOFLAGS=-mod=mod", "GOPROXY=off")
	var out bytes.Buffer
	cmd.Stdout = &out
	cmd.Stderr = &out
	err = cmd.Run()
	res := out.String()
	if race {
		for _, mark := range []string{"WARNING: DATA RACE", "fatal error: concurrent map"} {
			if strings.Contains(res, mark) {
				res += "\nGOVC-SCENARIO confirmed: the race detector / runtime reports: " + mark + "\n"
				break
			}
		}
	}
	return res, err
}

func (e *Exec) usesAbstract() []string {
	var out []string
	for a := range e.Assumptions {
		if strings.HasPrefix(a, "abstract:") {
			out = append(out, strings.TrimPrefix(a, "abstract:"))
		}
	}
	sort.Strings(out)
	return out
}

// parseAbstractPins: "GOVC-ABSTRACT F "a" "b" true" lines -> (assert (= (F "a" "b") true))
func parseAbstractPins(out string) []string {
	var pins []string
	for _, l := range strings.Split(out, "\n") {
		i := strings.Index(l, "GOVC-ABSTRACT ")
		if i < 0 {
			continue
		}
		rest := l[i+len("GOVC-ABSTRACT "):]
		sp := strings.IndexByte(rest, ' ')
		if sp < 0 {
			continue
		}
		fname := rest[:sp]
		rest = strings.TrimSpace(rest[sp+1:])
		var args []string
		for strings.HasPrefix(rest, "\"") {
			q, err := strconv.QuotedPrefix(rest)
			if err != nil {
				break
			}
			u, _ := strconv.Unquote(q)
			args = append(args, smtStr(u))
			rest = strings.TrimSpace(rest[len(q):])
		}
		if rest == "true" || rest == "false" {
			pins = append(pins, fmt.Sprintf("(assert (= (%s %s) %s))", sym(fname), strings.Join(args, " "), rest))
		}
	}
	return pins
}

func parseObserved(out string) []string {
	var res []string
	for _, l := range strings.Split(out, "\n") {
		if i := strings.Index(l, "GOVC-REPLAY result"); i >= 0 {
			rest := l[i+len("GOVC-REPLAY result"):]
			if eq := strings.Index(rest, "="); eq >= 0 {
				res = append(res, strings.TrimSpace(rest[eq+1:]))
			}
		}
	}
	return res
}

func genReplayTest(fn *ssa.Function, g *goBuilder, args []string, abstract []string) (string, string) {
	var b strings.Builder
	name := "TestGovcReplay"
	// concretisers of abstract spec predicates: what the real library answers on the model's strings
	conc := ""
	for _, a := range abstract {
		if a == "RegexMatch" {
			al := g.qualPath("regexp")
			seen := map[string]bool{}
			var strs []string
			for _, s := range g.strs {
				if !seen[s] {
					seen[s] = true
					strs = append(strs, s)
				}
			}
			if len(strs) > 8 {
				strs = strs[:8]
			}
			var lits []string
			for _, s := range strs {
				lits = append(lits, strconv.Quote(s))
			}
			conc += fmt.Sprintf("\tfor _, re := range []string{%s} {\n\t\tfor _, s := range []string{%s} {\n\t\t\tm, _ := %s.MatchString(re, s)\n\t\t\tfmt.Printf(\"GOVC-ABSTRACT RegexMatch %%q %%q %%v\\n\", re, s, m)\n\t\t}\n\t}\n", strings.Join(lits, ", "), strings.Join(lits, ", "), al)
		}
	}
	fmt.Fprintf(&b, "package %s\n\nimport (\n\t\"fmt\"\n\t\"testing\"\n", fn.Pkg.Pkg.Name())
	var paths []string
	for p := range g.imports {
		paths = append(paths, p)
	}
	sort.Strings(paths)
	for _, p := range paths {
		fmt.Fprintf(&b, "\t%s %q\n", g.imports[p], p)
	}
	b.WriteString(")\n\n")
	fmt.Fprintf(&b, "func %s(t *testing.T) {\n", name)
	for _, s := range g.stmts {
		b.WriteString("\t" + s + "\n")
	}
	b.WriteString(conc)
	b.WriteString("\tdefer func() {\n\t\tif r := recover(); r != nil {\n\t\t\tfmt.Printf(\"GOVC-REPLAY panic=true %v\\n\", r)\n\t\t} else {\n\t\t\tfmt.Println(\"GOVC-REPLAY panic=false\")\n\t\t}\n\t}()\n")
	call := ""
	nres := fn.Signature.Results().Len()
	var lhs []string
	for i := 0; i < nres; i++ {
		lhs = append(lhs, fmt.Sprintf("r%d", i))
	}
	if fn.Signature.Recv() != nil {
		call = fmt.Sprintf("%s.%s(%s)", args[0], fn.Name(), strings.Join(args[1:], ", "))
	} else {
		call = fmt.Sprintf("%s(%s)", fn.Name(), strings.Join(args, ", "))
	}
	if nres > 0 {
		fmt.Fprintf(&b, "\t%s := %s\n", strings.Join(lhs, ", "), call)
		for i := 0; i < nres; i++ {
			rt := fn.Signature.Results().At(i).Type()
			if bt, ok := rt.Underlying().(*types.Basic); ok && bt.Info()&types.IsString != 0 {
				fmt.Fprintf(&b, "\tfmt.Printf(\"GOVC-REPLAY result%d=%%q\\n\", r%d)\n", i, i)
			} else {
				fmt.Fprintf(&b, "\tfmt.Printf(\"GOVC-REPLAY result%d=%%v\\n\", r%d)\n", i, i)
			}
		}
	} else {
		fmt.Fprintf(&b, "\t%s\n", call)
	}
	b.WriteString("}\n")
	return b.String(), "^" + name + "$"
}

// runOverlayTest injects the test into fn's package with go test -overlay (nothing is written to the repo).
func runOverlayTest(p *Program, fn *ssa.Function, test, runPat string) (string, error) {
	dir, err := os.MkdirTemp("", "govc-replay-")
	if err != nil {
		return "", err
	}
	defer os.RemoveAll(dir)
	pkgPath := fn.Pkg.Pkg.Path()
	rel := strings.TrimPrefix(pkgPath, p.ModPath+"/")
	testFile := filepath.Join(dir, "zz_govc_replay_test.go")
	os.WriteFile(testFile, []byte(test), 0o644)
	ov := map[string]map[string]string{"Replace": {filepath.Join(p.RepoDir, rel, "zz_govc_replay_test.go"): testFile}}
	ob, _ := json.Marshal(ov)
	ovFile := filepath.Join(dir, "overlay.json")
	os.WriteFile(ovFile, ob, 0o644)
	ctx, cancel := context.WithTimeout(context.Background(), 180*time.Second)
	defer cancel()
	cmd := exec.CommandContext(ctx, "go", "test", "-overlay", ovFile, "-vet=off", "-count=1", "-timeout", "60s", "-run", runPat, "-v", "./"+rel)
	cmd.Dir = p.RepoDir
	cmd.Env = append(os.Environ(), "GOFLAGS=-mod=mod", "GOPROXY=off")
	var out bytes.Buffer
	cmd.Stdout = &out
	cmd.Stderr = &out
	err = cmd.Run()
	return out.String(), err
}

func cmdReplay(args []string) int {
	if len(args) < 1 {
		fmt.Println("usage: govc replay <replay.json>")
		return 2
	}
	if strings.HasSuffix(args[0], "_test.go") {
		// a scenario file (as named by a KNOWN-FINDING line or a "fixed:" record): run it on the current tree
		path := args[0]
		if !filepath.IsAbs(path) {
			path = filepath.Join(verifDir, path)
		}
		sb, err := os.ReadFile(filepath.Join(verifDir, "replay", "scenarios", "scenarios.json"))
		if err != nil {
			fmt.Println(err)
			return 2
		}
		var scs []scenario
		if err := json.Unmarshal(sb, &scs); err != nil {
			fmt.Println(err)
			return 2
		}
		for _, sc := range scs {
			if sc.File != filepath.Base(path) {
				continue
			}
			src, err := os.ReadFile(path)
			if err != nil {
				fmt.Println(err)
				return 2
			}
			p, err := loadProgram("/repo")
			if err != nil {
				fmt.Println(err)
				return 2
			}
			out, _ := runOverlayFile(p, sc.Pkg, string(src), "^"+sc.Run+"$")
			fmt.Println(out)
			if strings.Contains(out, "GOVC-SCENARIO confirmed") {
				return 1
			}
			return 0
		}
		fmt.Println("no scenario registered for", path)
		return 2
	}
	b, err := os.ReadFile(args[0])
	if err != nil {
		fmt.Println(err)
		return 2
	}
	var rec map[string]interface{}
	if err := json.Unmarshal(b, &rec); err != nil {
		fmt.Println(err)
		return 2
	}
	fmt.Printf("obligation: %v\nclause: %v\noutcome recorded: %v\n", rec["obligation"], rec["clause"], rec["outcome"])
	test, _ := rec["go_test"].(string)
	if pkg, ok := rec["go_test_pkg"].(string); ok && test != "" {
		p, err := loadProgram("/repo")
		if err != nil {
			fmt.Println(err)
			return 2
		}
		out, _ := runOverlayFile(p, pkg, test, "^"+fmt.Sprint(rec["go_test_run"])+"$")
		fmt.Println(out)
		if strings.Contains(out, "GOVC-SCENARIO confirmed") {
			return 1
		}
		return 0
	}
	if test == "" {
		fmt.Println("no replayable Go test recorded (", rec["note"], ")")
		fmt.Println(rec["verifier_output"])
		return 1
	}
	// re-run the recorded test against the current tree
	p, err := loadProgram("/repo")
	if err != nil {
		fmt.Println(err)
		return 2
	}
	pkgName := strings.TrimSpace(strings.TrimPrefix(strings.SplitN(test, "\n", 2)[0], "package "))
	for _, fn := range p.allRepoFuncs() {
		if fn.Pkg != nil && fn.Pkg.Pkg.Name() == pkgName && strings.HasPrefix(fmt.Sprint(rec["obligation"]), displayName(fn)+":") {
			out, _ := runOverlayTest(p, fn, test, "^TestGovcReplay$")
			fmt.Println(out)
			if strings.Contains(out, "GOVC-REPLAY") {
				return 1
			}
			return 2
		}
	}
	fmt.Println("function of the obligation not found")
	return 2
}
