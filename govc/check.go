package main

import (
	"encoding/json"
	"flag"
	"fmt"
	"os"
	"path/filepath"
	"regexp"
	"sort"
	"strconv"
	"strings"
	"time"

	"golang.org/x/tools/go/ssa"
)

// PropConfig: which functions / lemmas carry a property (from /verif/props.json).
type PropConfig struct {
	Functions   []string `json:"functions"`    // display names of functions under contract (all their obligations except panics unless "panics")
	Posts       map[string][]string `json:"posts"` // function display name -> post clause ids that carry this property (others are left to the properties that own them)
	Refines     []string `json:"refines"`      // methods of implementing types verified against their interface method contracts
	Panics      bool     `json:"panics"`       // include run-time panic obligations of the listed functions
	Sweep       []string `json:"sweep"`        // display names: panic sweep only (no contract needed)
	SweepRoots  []string `json:"sweep_roots"`  // every repo function reachable from these is swept
	SweepSkip   []string `json:"sweep_skip"`   // display names excluded from the reachability sweep (with reason in Notes)
	Lemmas      []string `json:"lemmas"`       // lemma names
	Required    []string `json:"required"`     // obligation name prefixes that must be generated
	Variant     string   `json:"variant"`      // contract variant (e.g. "intf") under which VariantFns are verified in addition
	VariantFns  []string `json:"variant_functions"`
	Locks       bool     `json:"locks"`        // include the lock-discipline obligations (guard, lockorder, lockbalance)
	Kinds       []string `json:"kinds"`        // restrict to obligation kinds (empty = all)
	Clauses     []string `json:"clauses"`      // for functions shared between properties: only these post clause ids (empty = all)
	Structural  []string `json:"structural"`   // names of structural checks
	Assumptions []string `json:"assumptions"`  // property-level assumption ids (A-ARITH ...)
	Bounded     []string `json:"bounded"`      // functions only covered by a bounded stand-in
	Note        string   `json:"note"`
	QuickT      int      `json:"quick_timeout_s"`
}

type KnownFinding struct {
	ID          string   `json:"id"`
	Property    string   `json:"property"`
	Status      string   `json:"status"` // open | fixed
	Obligations []string `json:"obligations"` // obligation names without ordinal (#k); suffix * allowed
	Except      string   `json:"except,omitempty"` // spec expression over the function's parameters (entry state): the known failing inputs
	What        string   `json:"what"`
	Commit      string   `json:"commit,omitempty"`
	Replay      string   `json:"replay,omitempty"`
}

type knownFile struct {
	Findings []KnownFinding `json:"findings"`
	Fixed    []string       `json:"fixed"`
}

var ordinalRE = regexp.MustCompile(`#\d+$`)

func stripOrdinal(n string) string { return ordinalRE.ReplaceAllString(n, "") }

func matchPattern(pat, name string) bool {
	if strings.HasSuffix(pat, "*") {
		return strings.HasPrefix(name, strings.TrimSuffix(pat, "*"))
	}
	return pat == name
}

func cmdCheck(args []string) int {
	fs := flag.NewFlagSet("check", flag.ExitOnError)
	prop := fs.String("prop", "", "property id")
	tier := fs.String("tier", "quick", "quick|thorough")
	repo := fs.String("repo", "/repo", "repository")
	fs.Parse(args)
	if t := os.Getenv("VERIF_TIER"); t == "quick" || t == "thorough" {
		*tier = t
	}
	seed := 0
	if s := os.Getenv("VERIF_SEED"); s != "" {
		if v, err := strconv.Atoi(s); err == nil {
			seed = v
		}
	}
	start := time.Now()
	id := *prop
	fail := func(msg string) int {
		fmt.Printf("ENGINE-ERROR property=%s %s\n", id, msg)
		return 2
	}
	var props map[string]*PropConfig
	b, err := os.ReadFile(verifDir + "/props.json")
	if err != nil {
		return fail(err.Error())
	}
	if err := json.Unmarshal(b, &props); err != nil {
		return fail("props.json: " + err.Error())
	}
	pc := props[id]
	if pc == nil {
		return fail("no such property in props.json")
	}
	var known knownFile
	if kb, err := os.ReadFile(verifDir + "/known_findings.json"); err == nil {
		if err := json.Unmarshal(kb, &known); err != nil {
			return fail("known_findings.json: " + err.Error())
		}
	}
	p, w, err := loadAll(*repo)
	if err != nil {
		// a tree that does not build / whose contracts do not parse is not a property violation
		fmt.Printf("ENGINE-ERROR property=%s %v\n", id, err)
		return 2
	}
	timeout := 30 // quick: per-obligation limit (raced solvers); a few obligations of redirectToIDP need ~15 s on cvc5
	if pc.QuickT > 0 {
		timeout = pc.QuickT
	}
	if *tier == "thorough" {
		timeout = 60
	}
	// GOVC_SCRATCH (used by tools/selftest.sh to check several seeded copies in parallel): all run
	// output — solver scripts, replay files, evidence — goes under that directory instead of /verif
	outRoot := verifDir
	if d := os.Getenv("GOVC_SCRATCH"); d != "" {
		outRoot = d
	}
	outDir := filepath.Join(outRoot, "out", id)
	os.RemoveAll(outDir)
	os.MkdirAll(outDir, 0o755)

	byName := map[string]*ssa.Function{}
	for _, fn := range p.allRepoFuncs() {
		if fn.Parent() == nil {
			byName[displayName(fn)] = fn
		}
	}
	// function literals that carry a contract through the package-level variable they are stored in
	for _, fn := range w.FnOf {
		if fn != nil && fn.Parent() != nil {
			byName[displayName(fn)] = fn
		}
	}
	var results []*FuncResult
	var missing []string
	seenFn := map[string]bool{}
	addFn := func(name string, needContract bool) {
		if seenFn[name] {
			return
		}
		seenFn[name] = true
		fn := byName[name]
		if fn == nil {
			missing = append(missing, name)
			return
		}
		con := w.contractFor(fn)
		if needContract && con == nil {
			missing = append(missing, name+" (no contract)")
			return
		}
		results = append(results, genFunc(p, w, fn, con, exceptsFor(known, name)))
	}
	for _, n := range pc.Functions {
		addFn(n, true)
	}
	for _, n := range sortedKeys(pc.Posts) {
		if strings.Contains(n, "@") {
			continue // posts of a contract variant: the function is generated with variant_functions
		}
		addFn(n, true)
	}
	for _, n := range pc.Sweep {
		addFn(n, false)
	}
	for _, n := range pc.Refines {
		fn := byName[n]
		if fn == nil {
			missing = append(missing, n+" (refinement)")
			continue
		}
		ref := w.Refines[funcKey(fn)]
		if ref == nil {
			missing = append(missing, n+" (no impl block / interface contract)")
			continue
		}
		results = append(results, genRefine(p, w, ref))
	}
	if len(pc.SweepRoots) > 0 {
		var roots []*ssa.Function
		for _, n := range pc.SweepRoots {
			if fn := byName[n]; fn != nil {
				roots = append(roots, fn)
			} else {
				missing = append(missing, n)
			}
		}
		skip := map[string]bool{}
		for _, s := range pc.SweepSkip {
			skip[s] = true
		}
		for _, fn := range reachableRepoFuncs(p, roots) {
			if fn.Parent() != nil || skip[displayName(fn)] {
				continue
			}
			addFn(displayName(fn), false)
		}
	}
	if pc.Variant != "" {
		// the same functions again under the variant contracts (obligation names carry @variant)
		w.ActiveVariant = pc.Variant
		for _, n := range pc.VariantFns {
			fn := byName[n]
			if fn == nil {
				missing = append(missing, n+" (variant "+pc.Variant+")")
				continue
			}
			con := w.contractFor(fn)
			if con == nil || con.Variant != pc.Variant {
				missing = append(missing, n+" (no "+pc.Variant+" contract)")
				continue
			}
			results = append(results, genFunc(p, w, fn, con, exceptsFor(known, n+"@"+pc.Variant)))
		}
		w.ActiveVariant = ""
	}
	if pc.Panics {
		// panic freedom: a repository function that a checked function calls without the engine
		// being able to model the call (no contract, not inlinable) is swept itself — otherwise a
		// new helper on the check path would escape the sweep
		byFull := map[string]*ssa.Function{}
		for _, fn := range p.allRepoFuncs() {
			byFull[fn.String()] = fn
		}
		for i := 0; i < len(results) && i < 400; i++ {
			for _, a := range results[i].Assumptions {
				if !strings.HasPrefix(a, "unmodelled-call:") {
					continue
				}
				name := strings.TrimPrefix(a, "unmodelled-call:")
				if at := strings.LastIndex(name, "@"); at >= 0 {
					name = name[:at]
				}
				if fn := byFull[name]; fn != nil && fn.Parent() == nil && !seenFn[displayName(fn)] {
					seenFn[displayName(fn)] = true
					pc.Sweep = append(pc.Sweep, displayName(fn))
					results = append(results, genFunc(p, w, fn, w.contractFor(fn), exceptsFor(known, displayName(fn))))
				}
			}
		}
	}
	for _, ln := range pc.Lemmas {
		ax := w.AxByName[ln]
		if ax == nil || !ax.Lemma {
			missing = append(missing, "lemma "+ln)
			continue
		}
		results = append(results, genLemma(p, w, ax))
	}
	// select obligations
	var obls []*Obligation
	var engineErrs []string
	kindOK := func(k string) bool {
		if len(pc.Kinds) == 0 {
			return true
		}
		return contains(pc.Kinds, k)
	}
	var stale []string
	for _, r := range results {
		if r.Err != "" {
			// the contracts no longer fit the function (a name they mention is gone, the loop structure
			// changed, a construct outside the subset appeared): its obligations cannot be generated, so
			// the property can no longer be shown. Never happens on the tree the contracts were written for.
			stale = append(stale, r.Fn+": "+r.Err)
		}
		wantPosts, restrict := pc.Posts[r.Fn]
		for _, o := range r.Obls {
			if !kindOK(o.Kind) {
				continue
			}
			if r.AbstractCon && (o.Kind == "post" || o.Kind == "frame") {
				continue // an assumed contract (abstractbody): only the safety obligations of the body are checked
			}
			if (o.Kind == "guard" || o.Kind == "lockorder" || o.Kind == "lockbalance") && !pc.Locks {
				continue // lock discipline is property C16's
			}
			if o.Kind == "panic" && r.HasContract && !pc.Panics && !contains(pc.Sweep, r.Fn) {
				continue // panic freedom of functions under contract is property C15's
			}
			if o.Kind == "post" && restrict && len(wantPosts) > 0 && !strings.HasPrefix(o.What, "pkginv.") {
				id := o.What
				if i := strings.Index(id, "@"); i >= 0 {
					id = id[:i]
				}
				if !contains(wantPosts, id) {
					continue
				}
			}
			obls = append(obls, o)
		}
	}
	for _, o := range w.Orphans {
		missing = append(missing, "orphan contract "+o)
	}
	dopt := dischargeOpts{OutDir: outDir, TimeoutS: timeout, Seed: seed, CrossCheck: *tier == "thorough", Workers: 8}
	if *tier != "thorough" {
		// quick: one incremental session per function first; thorough races (and cross-checks) everything
		groups := map[*Script][]*Obligation{}
		var order []*Script
		for _, o := range obls {
			if _, ok := groups[o.Script]; !ok {
				order = append(order, o.Script)
			}
			groups[o.Script] = append(groups[o.Script], o)
		}
		var gl [][]*Obligation
		for _, sc := range order {
			gl = append(gl, groups[sc])
		}
		batchDischarge(gl, dopt, 2000)
	}
	discharge(obls, dopt)
	// second chance for a few slow ones: a time-out under load must not become an alarm. They are
	// re-run one at a time with three times the limit (a genuine failure only costs the extra time).
	var retry []*Obligation
	for _, o := range obls {
		if !o.Cover && (o.Result == "timeout" || o.Result == "unknown") {
			// an obligation listed by an open known finding is expected to fail: no second chance needed
			listed := false
			for k := range known.Findings {
				kf := &known.Findings[k]
				if kf.Status != "open" || kf.Property != id {
					continue
				}
				for _, pat := range kf.Obligations {
					if matchPattern(pat, stripOrdinal(o.Name)) {
						listed = true
					}
				}
			}
			if !listed {
				retry = append(retry, o)
			}
		}
	}
	if len(retry) > 0 && len(retry) <= 10 && os.Getenv("GOVC_NORETRY") == "" {
		ropt := dopt
		ropt.TimeoutS = timeout * 2
		ropt.Workers = 1
		for _, o := range retry {
			o.Result = ""
			discharge([]*Obligation{o}, ropt)
			if o.Result == "unsat" {
				o.Solver += "(retry)"
			}
		}
	}

	// required obligations present?
	var vanished []string
	for _, req := range pc.Required {
		found := false
		for _, o := range obls {
			if strings.HasPrefix(o.Name, req) {
				found = true
				break
			}
		}
		if !found {
			vanished = append(vanished, req)
		}
	}

	// classify
	type failure struct {
		o      *Obligation
		known  *KnownFinding
		replay string
	}
	var failures []failure
	discharged := 0
	bySolver := map[string]int{}
	solverTime := 0.0
	var slowest []*Obligation
	covers := 0
	coversSat := 0
	for _, o := range obls {
		solverTime += o.TimeS
		if o.Result == "disagree" || o.Result == "error" {
			engineErrs = append(engineErrs, o.Name+": "+trunc(o.Output, 300))
			continue
		}
		if o.ok() {
			discharged++
			bySolver[o.Solver]++
			if o.Cover {
				covers++
				if o.Result == "sat" {
					coversSat++
				}
			}
			slowest = append(slowest, o)
			continue
		}
		failures = append(failures, failure{o: o})
	}
	sort.Slice(slowest, func(i, j int) bool { return slowest[i].TimeS > slowest[j].TimeS })
	if len(slowest) > 5 {
		slowest = slowest[:5]
	}
	if len(engineErrs) > 0 && len(failures) == 0 && len(missing) == 0 {
		fmt.Printf("ENGINE-ERROR property=%s %s\n", id, strings.Join(engineErrs, " | "))
		return 2
	}

	// known findings: a failing obligation is a known finding iff an open entry lists it and the
	// obligation is discharged once the entry's known failing inputs are excluded.
	violations := 0
	replays := 0
	maxReplays := 3
	if *tier == "thorough" {
		maxReplays = 12
	}
	// obligations for which a solver produced a model first: they are the most likely to replay
	sort.SliceStable(failures, func(i, j int) bool { return failures[i].o.Result == "sat" && failures[j].o.Result != "sat" })
	knownSeen := map[string]bool{}
	replayDir := filepath.Join(outRoot, "replays", id)
	os.RemoveAll(replayDir) // replay files are run output: only this run's are kept
	var outLines []string
	for i := range failures {
		fl := &failures[i]
		o := fl.o
		base := stripOrdinal(o.Name)
		for k := range known.Findings {
			kf := &known.Findings[k]
			if kf.Status != "open" || kf.Property != id {
				continue
			}
			listed := false
			for _, pat := range kf.Obligations {
				if matchPattern(pat, base) {
					listed = true
				}
			}
			if !listed {
				continue
			}
			if kf.Except == "" {
				fl.known = kf
				break
			}
			// re-ask with the known failing inputs excluded
			if exceptHolds(o, kf, outDir, timeout, seed) {
				fl.known = kf
				break
			}
		}
		if fl.known != nil {
			knownSeen[fl.known.ID] = true
			continue
		}
		violations++
		os.MkdirAll(replayDir, 0o755)
		rp := filepath.Join(replayDir, sanitizeFile(o.Name)+".json")
		outcome := "no-model"
		if sc := findScenario(o.Name); sc != nil || replays < maxReplays {
			if sc == nil {
				replays++
			}
			outcome = replayObligation(p, w, o, rp, outDir, seed)
		} else {
			writeJSON(rp, map[string]interface{}{"obligation": o.Name, "kind": o.Kind, "clause": o.Src, "where": o.Pos, "solver_result": o.Result,
				"verifier_output": trunc(o.Output, 4000), "outcome": "no-model", "note": "replay budget of this run used by earlier failed obligations"})
		}
		line := fmt.Sprintf("VIOLATION property=%s replay=%s", id, rp)
		if outcome != "confirmed" {
			line += " no-failing-input-found"
		}
		outLines = append(outLines, line)
		fmt.Printf("FAILED-OBLIGATION %s result=%s (%s) replay=%s\n", o.Name, o.Result, trunc(o.Src, 120), outcome)
	}
	for _, m := range missing {
		violations++
		os.MkdirAll(replayDir, 0o755)
		rp := filepath.Join(replayDir, sanitizeFile("missing_"+m)+".json")
		writeJSON(rp, map[string]interface{}{"property": id, "obligation": "CONTRACT-ORPHAN", "what": "function or lemma under contract not found in the current tree: " + m,
			"verifier_output": "the obligations of this function can no longer be generated, so the property cannot be shown"})
		outLines = append(outLines, fmt.Sprintf("VIOLATION property=%s replay=%s no-failing-input-found", id, rp))
		fmt.Printf("FAILED-OBLIGATION CONTRACT-ORPHAN %s\n", m)
	}
	for _, m := range stale {
		violations++
		os.MkdirAll(replayDir, 0o755)
		rp := filepath.Join(replayDir, sanitizeFile("stale_"+m)+".json")
		writeJSON(rp, map[string]interface{}{"property": id, "obligation": "CONTRACT-STALE", "what": "the obligations of this function can no longer be generated from its contract: " + m,
			"verifier_output": m})
		outLines = append(outLines, fmt.Sprintf("VIOLATION property=%s replay=%s no-failing-input-found", id, rp))
		fmt.Printf("FAILED-OBLIGATION CONTRACT-STALE %s\n", trunc(m, 300))
	}
	for _, v := range vanished {
		violations++
		os.MkdirAll(replayDir, 0o755)
		rp := filepath.Join(replayDir, sanitizeFile("vanished_"+v)+".json")
		writeJSON(rp, map[string]interface{}{"property": id, "obligation": v, "what": "required obligation is no longer generated (vacuity guard)"})
		outLines = append(outLines, fmt.Sprintf("VIOLATION property=%s replay=%s no-failing-input-found", id, rp))
		fmt.Printf("FAILED-OBLIGATION VANISHED %s\n", v)
	}
	for _, ee := range engineErrs {
		// engine errors alongside real failures: report them too
		fmt.Printf("ENGINE-NOTE %s\n", ee)
	}
	var knownIDs []string
	for k := range knownSeen {
		knownIDs = append(knownIDs, k)
	}
	sort.Strings(knownIDs)
	for _, kid := range knownIDs {
		for _, kf := range known.Findings {
			if kf.ID == kid {
				fmt.Printf("KNOWN-FINDING: property=%s %s: %s\n", id, kf.ID, kf.What)
			}
		}
	}
	for _, l := range outLines {
		fmt.Println(l)
	}

	// evidence
	assume := map[string]bool{}
	var fnames []string
	var abstracted []string
	var notes []string
	for _, r := range results {
		if r.HasContract {
			fnames = append(fnames, r.Fn)
		} else {
			fnames = append(fnames, r.Fn+" (panic sweep, no contract)")
		}
		for _, a := range r.Assumptions {
			assume[a] = true
		}
		abstracted = append(abstracted, r.Abstracted...)
		notes = append(notes, r.Notes...)
	}
	for _, a := range pc.Assumptions {
		assume[a] = true
	}
	assume["A-SSA: go/ssa (x/tools v0.29.0) represents the Go semantics of the accepted subset"] = true
	assume["A-SOLVER: unsat answers of cvc5 1.0 / z3 4.8.12 / z3 5.1.0 are sound"] = true
	assume["A-ARITH: machine integers are treated as mathematical integers (no overflow) apart from range facts of typed values"] = true
	var assumptions, trusted []string
	for a := range assume {
		assumptions = append(assumptions, a)
		if strings.HasPrefix(a, "trusted:") || strings.HasPrefix(a, "abstract:") || strings.HasPrefix(a, "axiom:") {
			trusted = append(trusted, a)
		}
	}
	sort.Strings(assumptions)
	sort.Strings(trusted)
	sort.Strings(fnames)
	var samples []map[string]interface{}
	step := 1
	if len(obls) > 5 {
		step = len(obls) / 5
	}
	for i := seed % step; i < len(obls) && len(samples) < 6; i += step {
		o := obls[i]
		samples = append(samples, map[string]interface{}{"obligation": o.Name, "kind": o.Kind, "clause": trunc(o.Src, 200), "where": o.Pos,
			"result": o.Result, "solver": o.Solver, "time_s": round3(o.TimeS), "smt_bytes": len(scriptFor(o)), "expected": map[bool]string{true: "sat (vacuity guard)", false: "unsat"}[o.Cover]})
	}
	var slow []map[string]interface{}
	for _, o := range slowest {
		slow = append(slow, map[string]interface{}{"obligation": o.Name, "time_s": round3(o.TimeS), "solver": o.Solver})
	}
	var failedNames []string
	for _, fl := range failures {
		tag := "UNDISCHARGED"
		if fl.known != nil {
			tag = "known-finding " + fl.known.ID
		}
		failedNames = append(failedNames, fl.o.Name+" ["+fl.o.Result+"; "+tag+"]")
	}
	knownOpen := 0
	for _, fl := range failures {
		if fl.known != nil {
			knownOpen++
		}
	}
	ev := map[string]interface{}{
		"property_id": id,
		"tier":        *tier,
		"seed":        seed,
		"level":       "proof",
		"wall_s":      round3(time.Since(start).Seconds()),
		"violations":  violations,
		"assumptions": assumptions,
		"coverage": map[string]interface{}{
			// the proof-level claim is about the obligations that are not those of an open known finding
			// (those are reported as KNOWN-FINDING and are excluded from the claim in MANIFEST.level_note)
			"obligations":              len(obls) - knownOpen,
			"discharged":               discharged,
			"obligations_generated":    len(obls),
			"known_open":               knownOpen,
			"checker_cmd":              fmt.Sprintf("/verif/bin/govc check -prop %s -tier %s   (VCs from go/ssa of %s's working tree, -tags verif; cvc5 --strings-exp / z3-new / z3 raced per obligation, %ds limit)", id, *tier, *repo, timeout),
			"trusted_base":             trusted,
			"samples":                  samples,
			"functions_under_contract": fnames,
			"abstracted":               abstracted,
			"bounded":                  pc.Bounded,
			"by_solver":                bySolver,
			"solver_time_s":            round3(solverTime),
			"slowest":                  slow,
			"cover_checks":             covers,
			"cover_checks_answered_sat": coversSat,
			"cover_checks_note":        "a cover (vacuity) obligation passes when the solvers do not refute it: answered sat = a witness exists; the remainder were not refuted within the limit (quantified hypotheses), which is weaker",
			"undischarged":             failedNames,
			"known_findings_seen":      knownIDs,
			"lemmas":                   pc.Lemmas,
			"structural_checks":        pc.Structural,
			"notes":                    append(notes, pc.Note),
			"engine_notes":             engineErrs,
			"exhaustive":               false,
			"explanation":              "every obligation is a verification condition over symbolic inputs, arbitrary heap and unbounded loops (cut at invariants); obligations counts the generated obligations minus those of open known findings (known_open, reported as KNOWN-FINDING lines); discharged == obligations is required for exit 0",
		},
	}
	os.MkdirAll(filepath.Join(outRoot, "evidence"), 0o755)
	writeJSON(filepath.Join(outRoot, "evidence", id+".json"), ev)
	fmt.Printf("property=%s tier=%s obligations=%d discharged=%d known_open=%d violations=%d wall=%.1fs\n", id, *tier, len(obls), discharged, knownOpen, violations, time.Since(start).Seconds())
	if violations > 0 {
		return 1
	}
	return 0
}

// exceptsFor: the discriminators of open known findings that concern function fn.
func exceptsFor(known knownFile, fn string) map[string]string {
	out := map[string]string{}
	for _, kf := range known.Findings {
		if kf.Status != "open" || kf.Except == "" {
			continue
		}
		for _, pat := range kf.Obligations {
			if strings.HasPrefix(pat, fn+":") {
				out[kf.ID] = kf.Except
			}
		}
	}
	return out
}

func round3(f float64) float64 { return float64(int(f*1000+0.5)) / 1000 }

func writeJSON(path string, v interface{}) {
	b, _ := json.MarshalIndent(v, "", " ")
	os.WriteFile(path, append(b, '\n'), 0o644)
}

// exceptHolds asks whether the obligation is discharged once the known failing inputs of the
// finding (its "except" condition, elaborated at generation time in the function's entry
// environment) are excluded.
func exceptHolds(o *Obligation, kf *KnownFinding, outDir string, timeout, seed int) bool {
	extra, ok := o.ExceptTerms[kf.ID]
	if !ok {
		fmt.Printf("ENGINE-NOTE known finding %s: no except term generated for %s\n", kf.ID, o.Name)
		return false
	}
	o2 := *o
	o2.Extra = append([]string{}, o.Extra...)
	o2.Extra = append(o2.Extra, "(assert (not "+extra+"))")
	o2.Name = o.Name + ".except-" + kf.ID
	r := solve(outDir, o2.Name, scriptFor(&o2), timeout, seed, false, false, nil)
	return r.Result == "unsat"
}
