package main

import (
	"flag"
	"fmt"
	"os"
	"sort"
	"strings"

	"golang.org/x/tools/go/ssa"
)

const verifDir = "/verif"

func main() {
	if len(os.Args) < 2 {
		fmt.Fprintln(os.Stderr, "usage: govc <dev|check|replay|selftest|ledger> ...")
		os.Exit(2)
	}
	switch os.Args[1] {
	case "dev":
		cmdDev(os.Args[2:])
	case "check":
		os.Exit(cmdCheck(os.Args[2:]))
	case "replay":
		os.Exit(cmdReplay(os.Args[2:]))
	default:
		fmt.Fprintln(os.Stderr, "unknown command", os.Args[1])
		os.Exit(2)
	}
}

func loadAll(repo string) (*Program, *World, error) {
	p, err := loadProgram(repo)
	if err != nil {
		return nil, nil, err
	}
	w, err := loadWorld(p, []string{verifDir + "/spec", verifDir + "/trusted"})
	if err != nil {
		return nil, nil, err
	}
	return p, w, nil
}

// cmdDev: developer loop — generate and discharge the obligations of functions matching -fn.
func cmdDev(args []string) {
	fs := flag.NewFlagSet("dev", flag.ExitOnError)
	fnPat := fs.String("fn", "", "substring of function display names (comma separated)")
	lemma := fs.String("lemma", "", "lemma name")
	repo := fs.String("repo", "/repo", "repository")
	timeout := fs.Int("t", 10, "per-obligation timeout (s)")
	dump := fs.Bool("dump", false, "print failing scripts' paths")
	only := fs.String("kind", "", "only obligations of this kind")
	nosolve := fs.Bool("nosolve", false, "generate only")
	refineOnly := fs.Bool("refine", false, "verify implementing methods against their interface contracts")
	variant := fs.String("variant", "", "contract variant in force")
	fs.Parse(args)
	p, w, err := loadAll(*repo)
	if err != nil {
		fmt.Println(err)
		os.Exit(2)
	}
	w.ActiveVariant = *variant
	if len(w.Orphans) > 0 {
		fmt.Println("CONTRACT-ORPHAN:", strings.Join(w.Orphans, "; "))
	}
	var results []*FuncResult
	if *lemma != "" {
		for _, ax := range w.Axioms {
			if ax.Lemma && (ax.Name == *lemma || *lemma == "all") {
				results = append(results, genLemma(p, w, ax))
			}
		}
	}
	if *fnPat != "" {
		pats := strings.Split(*fnPat, ",")
		for _, fn := range p.allRepoFuncs() {
			dn := displayName(fn)
			match := false
			for _, pat := range pats {
				if pat == dn || strings.HasSuffix(dn, "."+pat) || (strings.HasSuffix(pat, "*") && strings.HasPrefix(dn, strings.TrimSuffix(pat, "*"))) {
					match = true
				}
			}
			if !match || fn.Parent() != nil {
				continue
			}
			if ref := w.Refines[funcKey(fn)]; ref != nil && *refineOnly {
				results = append(results, genRefine(p, w, ref))
				continue
			}
			results = append(results, genFunc(p, w, fn, w.contractFor(fn), nil))
		}
	}
	var all []*Obligation
	for _, r := range results {
		for _, o := range r.Obls {
			if *only == "" || o.Kind == *only {
				all = append(all, o)
			}
		}
	}
	if !*nosolve {
		dopt := dischargeOpts{OutDir: verifDir + "/out/dev", TimeoutS: *timeout, Seed: 0, Workers: 8}
		groups := map[*Script][]*Obligation{}
		for _, o := range all {
			groups[o.Script] = append(groups[o.Script], o)
		}
		var gl [][]*Obligation
		for _, g := range groups {
			gl = append(gl, g)
		}
		batchDischarge(gl, dopt, 2000)
		discharge(all, dopt)
	}
	for _, r := range results {
		fmt.Printf("== %s  (contract=%v, %d obligations, %d script lines, gen %.2fs)\n", r.Fn, r.HasContract, len(r.Obls), r.ScriptLines, r.GenTimeS)
		if r.Err != "" {
			fmt.Println("   ERROR:", r.Err)
		}
		for _, n := range r.Notes {
			fmt.Println("   note:", n)
		}
		for _, a := range r.Abstracted {
			fmt.Println("   abstracted:", a)
		}
		for _, o := range r.Obls {
			if *only != "" && o.Kind != *only {
				continue
			}
			mark := "ok  "
			if !o.ok() {
				mark = "FAIL"
			}
			fmt.Printf("   %s %-8s %-7s %5.2fs %s   [%s] %s\n", mark, o.Result, o.Solver, o.TimeS, o.Name, o.Pos, trunc(o.Src, 90))
			if !o.ok() && *dump {
				fmt.Printf("        script: %s/out/dev/%s.*.smt2  inlined=%s\n", verifDir, sanitizeFile(o.Name), o.Inlined)
				if o.Result == "error" {
					fmt.Println("        ", trunc(o.Output, 400))
				}
			}
		}
		var as []string
		for _, a := range r.Assumptions {
			as = append(as, a)
		}
		sort.Strings(as)
		fmt.Println("   assumptions:", strings.Join(as, ", "))
	}
}

func trunc(s string, n int) string {
	s = strings.ReplaceAll(s, "\n", " ")
	if len(s) > n {
		return s[:n] + "…"
	}
	return s
}

var _ = ssa.NewProgram

