package main

import (
	"bytes"
	"context"
	"fmt"
	"os"
	"os/exec"
	"path/filepath"
	"strings"
	"sync"
	"time"
)

type solverSpec struct {
	name string
	bin  string
	args func(timeoutS int, seed int) []string
	pre  func(seed int) string
}

var solvers = []solverSpec{
	{"cvc5", "cvc5", func(t, seed int) []string {
		return []string{"--lang=smt2", "--strings-exp", fmt.Sprintf("--tlimit=%d", t*1000), fmt.Sprintf("--seed=%d", seed)}
	}, func(seed int) string { return "(set-option :produce-models true)\n(set-logic ALL)\n" }},
	{"z3-new", "z3-new", func(t, seed int) []string { return []string{fmt.Sprintf("-T:%d", t), fmt.Sprintf("smt.random_seed=%d", seed)} },
		func(seed int) string { return "(set-option :produce-models true)\n" }},
	{"z3", "z3", func(t, seed int) []string { return []string{fmt.Sprintf("-T:%d", t), fmt.Sprintf("smt.random_seed=%d", seed)} },
		func(seed int) string { return "(set-option :produce-models true)\n" }},
}

type solveResult struct {
	Result string // unsat, sat, unknown, timeout, error
	Solver string
	TimeS  float64
	Output string
	All    map[string]string // per solver answers (when all were awaited)
}

var solverSem = make(chan struct{}, 16)

// solve races the solvers on the script body. body must not contain set-logic / check-sat.
// If wantModel, "(get-model)" is appended after check-sat and the output of the winning
// solver is returned. If crossCheck, all solvers are awaited and disagreements reported.
func solve(outDir, name, body string, timeoutS, seed int, wantModel, crossCheck bool, only []string) solveResult {
	os.MkdirAll(outDir, 0o755)
	fileBase := filepath.Join(outDir, sanitizeFile(name))
	tail := "(check-sat)\n"
	if wantModel {
		tail += "(get-model)\n"
	}
	type ans struct {
		res    string
		solver string
		out    string
		t      float64
	}
	ctx, cancel := context.WithCancel(context.Background())
	defer cancel()
	ch := make(chan ans, len(solvers))
	var wg sync.WaitGroup
	n := 0
	for _, s := range solvers {
		if len(only) > 0 && !contains(only, s.name) {
			continue
		}
		if _, err := exec.LookPath(s.bin); err != nil {
			continue
		}
		n++
		wg.Add(1)
		go func(s solverSpec) {
			defer wg.Done()
			solverSem <- struct{}{}
			defer func() { <-solverSem }()
			if ctx.Err() != nil {
				ch <- ans{"cancelled", s.name, "", 0}
				return
			}
			file := fileBase + "." + s.name + ".smt2"
			os.WriteFile(file, []byte(s.pre(seed)+body+tail), 0o644)
			start := time.Now()
			cctx, ccancel := context.WithTimeout(ctx, time.Duration(timeoutS+2)*time.Second)
			defer ccancel()
			cmd := exec.CommandContext(cctx, s.bin, append(s.args(timeoutS, seed), file)...)
			var out bytes.Buffer
			cmd.Stdout = &out
			cmd.Stderr = &out
			_ = cmd.Run()
			el := time.Since(start).Seconds()
			o := out.String()
			first := ""
			for _, l := range strings.Split(strings.TrimSpace(o), "\n") {
				l = strings.TrimSpace(l)
				if l == "" || strings.HasPrefix(l, "WARNING:") {
					continue // z3 warns about patterns it will not use; the answer follows
				}
				first = l
				break
			}
			res := "unknown"
			switch {
			case first == "unsat":
				res = "unsat"
			case first == "sat":
				res = "sat"
			case first == "unknown":
				res = "unknown"
			case strings.Contains(first, "timeout") || cctx.Err() != nil && ctx.Err() == nil:
				res = "timeout"
			case ctx.Err() != nil:
				res = "cancelled"
			case strings.HasPrefix(first, "(error") || strings.Contains(o, "error"):
				res = "error"
			}
			ch <- ans{res, s.name, o, el}
		}(s)
	}
	go func() { wg.Wait(); close(ch) }()
	best := solveResult{Result: "unknown", All: map[string]string{}}
	got := 0
	var firstDef *ans
	for a := range ch {
		got++
		a := a
		best.All[a.solver] = a.res
		if a.res == "error" && best.Output == "" {
			best.Output = a.solver + ": " + a.out
		}
		if (a.res == "unsat" || a.res == "sat") && firstDef == nil {
			firstDef = &a
			if !crossCheck {
				cancel()
			}
		}
		if a.res == "timeout" && best.Result == "unknown" && firstDef == nil {
			best.Result = "timeout"
		}
	}
	if firstDef != nil {
		best.Result = firstDef.res
		best.Solver = firstDef.solver
		best.TimeS = firstDef.t
		best.Output = firstDef.out
		// disagreement check
		for s, r := range best.All {
			if (r == "sat" || r == "unsat") && r != firstDef.res {
				best.Result = "disagree"
				best.Output = fmt.Sprintf("solver disagreement: %s=%s %s=%s", firstDef.solver, firstDef.res, s, r)
			}
		}
	}
	if n == 0 {
		best.Result = "error"
		best.Output = "no solver found"
	}
	return best
}

func contains(xs []string, x string) bool {
	for _, y := range xs {
		if y == x {
			return true
		}
	}
	return false
}

func sanitizeFile(s string) string {
	r := strings.Map(func(r rune) rune {
		if r >= 'a' && r <= 'z' || r >= 'A' && r <= 'Z' || r >= '0' && r <= '9' || r == '.' || r == '_' || r == '-' {
			return r
		}
		return '_'
	}, s)
	if len(r) > 150 {
		r = r[:150]
	}
	return r
}
