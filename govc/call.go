package main

import (
	"fmt"
	"go/types"
	"sort"
	"strings"

	"golang.org/x/tools/go/ssa"
)

type modTarget struct {
	heap string
	obj  string // "" = any object
}

// autoInlinePkg: packages whose simple pure functions (generated getters etc.) are executed from
// their real bodies at call sites instead of being given contracts.
func (e *Exec) autoInlinePkg(fn *ssa.Function) bool {
	var path string
	if fn.Pkg != nil {
		path = fn.Pkg.Pkg.Path()
	} else if fn.Object() != nil && fn.Object().Pkg() != nil {
		path = fn.Object().Pkg().Path()
	}
	switch {
	case strings.HasPrefix(path, repoModule+"/"):
		return true
	case strings.HasPrefix(path, "github.com/envoyproxy/go-control-plane/envoy/"):
		return true
	case strings.HasPrefix(path, "google.golang.org/genproto/googleapis/rpc/"):
		return true
	case strings.HasPrefix(path, "google.golang.org/protobuf/types/known/"):
		return true
	}
	return false
}

func (e *Exec) inlinableRepoFunc(fn *ssa.Function) bool {
	if fn.Blocks == nil || fn.Pkg == nil || !strings.HasPrefix(fn.Pkg.Pkg.Path(), repoModule+"/internal") {
		return false
	}
	if len(fn.Blocks) > 80 || len(findLoops(fn)) > 0 {
		return false
	}
	for _, n := range e.inlineStack {
		if n == displayName(fn) {
			return false
		}
	}
	if displayName(fn) == e.FnName {
		return false
	}
	if v, ok := e.inlinable[fn]; ok {
		return v
	}
	e.inlinable[fn] = false // recursion guard
	for _, b := range fn.Blocks {
		for _, ins := range b.Instrs {
			switch x := ins.(type) {
			case *ssa.Go, *ssa.Select:
				return false
			case *ssa.Defer:
				if ci := e.resolveCallee(nil, &x.Call); ci.kind == ckUnmodelled {
					return false
				}
			case *ssa.Call:
				// only bodies whose calls are all modelled (contract, builtin, or in turn inlinable):
				// an unmodelled call is better kept at the outer call, where it havocs less
				if _, isParam := x.Common().Value.(*ssa.Parameter); isParam && !x.Common().IsInvoke() {
					continue // a function-typed parameter: resolved at the inlined call (closure known there)
				}
				ci := e.resolveCallee(nil, x.Common())
				if ci.kind == ckUnmodelled {
					return false
				}
			}
		}
	}
	e.inlinable[fn] = true
	return true
}

// isSimplePure: loop-free, store-free function whose calls are themselves simple pure.
func (e *Exec) isSimplePure(fn *ssa.Function) bool {
	switch e.simplePure[fn] {
	case 1:
		return true
	case 2:
		return false
	}
	e.simplePure[fn] = 2 // recursion => no
	if fn.Blocks == nil || len(fn.Blocks) > 16 || !e.autoInlinePkg(fn) {
		return false
	}
	if c := e.W.contractFor(fn); c != nil && !c.Inline {
		return false
	}
	if len(findLoops(fn)) > 0 {
		return false
	}
	for _, b := range fn.Blocks {
		for _, ins := range b.Instrs {
			switch x := ins.(type) {
			case *ssa.Phi, *ssa.BinOp, *ssa.FieldAddr, *ssa.Field, *ssa.Extract, *ssa.TypeAssert, *ssa.ChangeInterface,
				*ssa.ChangeType, *ssa.If, *ssa.Jump, *ssa.Return, *ssa.MakeInterface, *ssa.Lookup, *ssa.DebugRef, *ssa.Slice, *ssa.IndexAddr, *ssa.Index:
			case *ssa.UnOp:
				if x.Op.String() == "<-" {
					return false
				}
			case *ssa.Convert:
			case *ssa.Call:
				c := x.Common()
				if c.IsInvoke() {
					return false
				}
				switch callee := c.Value.(type) {
				case *ssa.Builtin:
					if callee.Name() != "len" {
						return false
					}
				case *ssa.Function:
					if con := e.W.contractFor(callee); con != nil && con.Pure && !con.Inline {
						continue
					}
					if !e.isSimplePure(callee) {
						return false
					}
				default:
					return false
				}
			default:
				return false
			}
		}
	}
	e.simplePure[fn] = 1
	return true
}

type calleeKind int

const (
	ckBuiltin calleeKind = iota
	ckContract
	ckInline
	ckUnmodelled
)

type calleeInfo struct {
	kind     calleeKind
	fn       *ssa.Function
	con      *Contract
	bindings []Val
	name     string
}

func (e *Exec) resolveCallee(f *frame, c *ssa.CallCommon) calleeInfo {
	if c.IsInvoke() {
		name := c.Method.FullName()
		if con := e.W.contractForIfaceMethod(c.Method); con != nil {
			return calleeInfo{kind: ckContract, con: con, name: name}
		}
		return calleeInfo{kind: ckUnmodelled, name: name}
	}
	switch callee := c.Value.(type) {
	case *ssa.Builtin:
		return calleeInfo{kind: ckBuiltin, name: callee.Name()}
	case *ssa.Function:
		return e.resolveStatic(callee, nil)
	case *ssa.MakeClosure:
		var bs []Val
		if f != nil {
			for _, b := range callee.Bindings {
				if v, ok := f.vals[b]; ok {
					bs = append(bs, v)
				}
			}
		}
		return calleeInfo{kind: ckInline, fn: callee.Fn.(*ssa.Function), bindings: bs, name: callee.Fn.Name()}
	default:
		if f != nil {
			if v, ok := f.vals[c.Value]; ok && v.Clo != nil {
				ci := e.resolveStatic(v.Clo.Fn, v.Clo.Bindings)
				return ci
			}
		}
		// a package-level function variable with a contract (e.g. server.deny)
		if u, ok := c.Value.(*ssa.UnOp); ok {
			if g, ok := u.X.(*ssa.Global); ok {
				key := g.Pkg.Pkg.Path() + "." + g.Name()
				if con, ok := e.W.Contracts[key]; ok {
					return calleeInfo{kind: ckContract, con: con, name: key, fn: e.W.FnOf[con]}
				}
			}
		}
		return calleeInfo{kind: ckUnmodelled, name: "func-value:" + c.Value.Name()}
	}
}

func (e *Exec) resolveStatic(fn *ssa.Function, bindings []Val) calleeInfo {
	name := funcKey(fn)
	if fn.Name() == "init" && fn.Signature.Recv() == nil && fn.Signature.Params().Len() == 0 {
		// initialisers of imported packages: they only touch their own package state
		// (A-INIT); the initialiser of the package under verification is executed.
		e.Assumptions["A-INIT: initialisers of imported packages do not touch this package's variables"] = true
		return calleeInfo{kind: ckBuiltin, name: "noop", fn: fn}
	}
	if con := e.W.contractFor(fn); con != nil {
		if con.Inline && fn.Blocks != nil {
			return calleeInfo{kind: ckInline, fn: fn, con: con, bindings: bindings, name: name}
		}
		return calleeInfo{kind: ckContract, fn: fn, con: con, name: name}
	}
	if fn.Parent() != nil && fn.Blocks != nil { // anonymous function: always executed in place
		return calleeInfo{kind: ckInline, fn: fn, bindings: bindings, name: name}
	}
	if e.isSimplePure(fn) {
		return calleeInfo{kind: ckInline, fn: fn, name: name}
	}
	// repository functions without a contract (e.g. a helper extracted by a refactoring) are executed
	// in place from their real body when that is possible: loop-free, not recursive, of moderate size.
	// Their panic / frame obligations are then attributed to the caller.
	if e.inlinableRepoFunc(fn) {
		return calleeInfo{kind: ckInline, fn: fn, name: name}
	}
	// generic instantiations / wrappers: try origin
	if fn.Origin() != nil {
		if con := e.W.contractFor(fn.Origin()); con != nil {
			return calleeInfo{kind: ckContract, fn: fn, con: con, name: name}
		}
	}
	return calleeInfo{kind: ckUnmodelled, fn: fn, name: name}
}

// call executes a call instruction (or deferred call).
func (e *Exec) call(f *frame, st *State, c *ssa.CallCommon, ins ssa.Instruction, rt types.Type) Val {
	var args []Val
	if c.IsInvoke() {
		recv := e.value(f, c.Value)
		e.panicObl(f, st, "nil-interface-call("+c.Method.Name()+")", not(eq(app("if-tag", recv.T), "0")), ins)
		args = append(args, recv)
	}
	for _, a := range c.Args {
		args = append(args, e.value(f, a))
	}
	ci := e.resolveCallee(f, c)
	sig := c.Signature()
	e.lockOrder(f, st, ci, c, args, ins)
	switch ci.kind {
	case ckBuiltin:
		return e.builtin(f, st, ci.name, c, args, ins)
	case ckInline:
		if !c.IsInvoke() {
			if _, isFn := c.Value.(*ssa.Function); !isFn {
				if _, isClo := c.Value.(*ssa.MakeClosure); !isClo {
					fv := e.value(f, c.Value)
					if fv.T != "" && fv.Clo == nil {
						e.panicObl(f, st, "nil-func-call", not(eq(fv.T, "0")), ins)
					}
				}
			}
		}
		e.inlineStack = append(e.inlineStack, displayName(ci.fn))
		mode := "inline"
		if f.mode == "spec" {
			mode = "spec"
		}
		rets, out := e.runFunc(ci.fn, args, ci.bindings, st, mode)
		e.inlineStack = e.inlineStack[:len(e.inlineStack)-1]
		reach := st.Reach
		*st = *out
		st.Reach = reach
		return packResults(rets, sig)
	case ckContract:
		return e.applyContract(f, st, ci, args, sig, ins)
	}
	return e.unmodelled(f, st, ci, c, args, sig, ins)
}

func packResults(rets []Val, sig *types.Signature) Val {
	switch len(rets) {
	case 0:
		return Val{}
	case 1:
		return rets[0]
	}
	return Val{Tuple: rets, Ty: &STy{K: KTuple, Go: sig.Results()}}
}

// contractParamNames: the names under which a contract sees its arguments.
func contractParamNames(ci calleeInfo, sig *types.Signature, invoke bool, nargs int) []string {
	var names []string
	if ci.fn != nil && len(ci.fn.Params) == nargs {
		for _, p := range ci.fn.Params {
			names = append(names, p.Name())
		}
	} else {
		if invoke || sig.Recv() != nil && nargs == sig.Params().Len()+1 {
			names = append(names, "self")
		}
		for i := 0; i < sig.Params().Len(); i++ {
			n := sig.Params().At(i).Name()
			if n == "" || n == "_" {
				n = fmt.Sprintf("arg%d", i)
			}
			names = append(names, n)
		}
	}
	for i, n := range ci.con.Params {
		if i < len(names) {
			names[i] = n
		}
	}
	return names
}

func resultNames(con *Contract, sig *types.Signature) []string {
	n := sig.Results().Len()
	names := make([]string, n)
	for i := 0; i < n; i++ {
		names[i] = sig.Results().At(i).Name()
		if names[i] == "" || names[i] == "_" {
			if n == 1 {
				names[i] = "result"
			} else {
				names[i] = fmt.Sprintf("result%d", i)
			}
		}
	}
	if con != nil {
		for i, r := range con.Results {
			if i < n {
				names[i] = r
			}
		}
	}
	return names
}

func isErrorType(t types.Type) bool {
	n, ok := t.(*types.Named)
	return ok && n.Obj().Pkg() == nil && n.Obj().Name() == "error"
}

func bindResults(env *Env, con *Contract, sig *types.Signature, rets []Val) {
	names := resultNames(con, sig)
	for i, n := range names {
		if i < len(rets) {
			env.Vars[n] = rets[i]
			if isErrorType(sig.Results().At(i).Type()) {
				if _, taken := env.Vars["err"]; !taken {
					env.Vars["err"] = rets[i]
				}
			}
			if i == 0 {
				if _, taken := env.Vars["result"]; !taken {
					env.Vars["result"] = rets[i]
				}
			}
		}
	}
}

func (e *Exec) applyContract(f *frame, st *State, ci calleeInfo, args []Val, sig *types.Signature, ins ssa.Instruction) Val {
	con := ci.con
	key := con.Key
	if con.Trusted {
		e.Assumptions["trusted:"+key] = true
	} else if con.Abstract {
		e.Assumptions["assumed-contract(abstracted body):"+key] = true
	} else {
		e.Assumptions["callee-contract:"+ci.name] = true
	}
	invoke := con.Iface != ""
	names := contractParamNames(ci, sig, invoke, len(args))
	env := &Env{E: e, Vars: map[string]Val{}, St: st, Imports: e.W.ImportsOf[con], Pkg: con.PkgPath, Where: "call of " + key}
	for i, n := range names {
		if i < len(args) {
			env.Vars[n] = args[i]
		}
	}
	short := key
	if i := strings.LastIndex(short, "/"); i >= 0 {
		short = short[i+1:]
	}
	short = strings.NewReplacer("(*", "", "(", "", ")", "").Replace(short)
	if f.mode != "spec" {
		for _, r := range con.Requires {
			t := e.elabClause(env, r)
			e.oblig(st, "pre@call", short+"."+r.ID, t, r.Src, e.position(ins.Pos()))
		}
	}
	old := st.clone()
	// frame: havoc what the callee may modify
	if !con.Pure {
		// resolve every item in the pre-state first, then havoc
		preEnv := *env
		preEnv.St = old
		type resolved struct {
			ts    []modTarget
			all   bool
			above string
		}
		var rs []resolved
		for _, m := range con.Modifies {
			if m.Kind == "above" {
				rs = append(rs, resolved{above: preEnv.elab(m.X).T})
				continue
			}
			ts, all := e.resolveMod(&preEnv, m)
			rs = append(rs, resolved{ts: ts, all: all})
		}
		if !con.Trusted || con.Flags["allocates"] || len(con.Modifies) > 0 {
			e.bumpTop(st)
		}
		for _, r := range rs {
			if r.above != "" {
				if e.top.active && !e.top.everything && f.mode != "spec" {
					e.oblig(st, "frame", "above", app(">=", r.above, e.top.entryTop), ins.String(), e.position(ins.Pos()))
				}
				e.frameEpochAbove(st, r.above)
				continue
			}
			e.havocTargets(f, st, r.ts, r.all, ins)
		}
	}
	// results
	var rets []Val
	for i := 0; i < sig.Results().Len(); i++ {
		rets = append(rets, e.freshVal(st, f.prefix+"call."+sanitize(short)+fmt.Sprintf(".r%d", i), sig.Results().At(i).Type()))
	}

	env2 := *env
	env2.St = st
	env2.Old = old
	env2.Vars = map[string]Val{}
	for k, v := range env.Vars {
		env2.Vars[k] = v
	}
	bindResults(&env2, con, sig, rets)
	for _, en := range con.Ensures {
		t := e.elabClause(&env2, en)
		e.S.assume(implies(st.Reach, t))
	}
	return packResults(rets, sig)
}

func sanitize(s string) string {
	return strings.Map(func(r rune) rune {
		if r >= 'a' && r <= 'z' || r >= 'A' && r <= 'Z' || r >= '0' && r <= '9' || r == '.' || r == '_' {
			return r
		}
		return '_'
	}, s)
}

// resolveMod turns a modifies item into heap targets (in the given env/state).
func (e *Exec) resolveMod(env *Env, m ModItem) (targets []modTarget, everything bool) {
	switch m.Kind {
	case "everything":
		return nil, true
	case "nothing":
		return nil, false
	case "ghost":
		g, ok := e.W.Ghosts[m.Name]
		if !ok {
			env.fail("modifies: unknown ghost %s", m.Name)
		}
		ty, err := e.W.resolveType(g.T, g.Imports, "")
		if err != nil {
			env.fail("%v", err)
		}
		e.ensureSortDecl(ty)
		e.regHeap("G."+m.Name, ty.Sort())
		return []modTarget{{heap: "G." + m.Name}}, false
	case "ghostelem":
		g, ok := e.W.Ghosts[m.Name]
		if !ok {
			env.fail("modifies: unknown ghost %s", m.Name)
		}
		ty, err := e.W.resolveType(g.T, g.Imports, "")
		if err != nil {
			env.fail("%v", err)
		}
		e.ensureSortDecl(ty)
		e.regHeap("G."+m.Name, ty.Sort())
		idx := env.elab(m.X)
		return []modTarget{{heap: "G." + m.Name, obj: idx.T}}, false
	case "heap":
		gt, err := e.W.resolveGoType(m.T, env.Imports, env.Pkg)
		if err != nil {
			env.fail("%v", err)
		}
		st, ok := gt.Underlying().(*types.Struct)
		if !ok {
			env.fail("modifies heap: %s is not a struct", gt)
		}
		for i := 0; i < st.NumFields(); i++ {
			if st.Field(i).Name() == m.Name {
				a := e.fieldAddr("0", gt, i)
				if a.Heap != "" {
					return []modTarget{{heap: a.Heap}}, false
				}
				return e.structTargets(a.Sub, st.Field(i).Type(), true), false
			}
		}
		env.fail("modifies heap: no field %s in %s", m.Name, gt)
	case "field":
		v := env.elab(m.X)
		pt, ok := v.Ty.Go.Underlying().(*types.Pointer)
		if !ok {
			env.fail("modifies %s: not a pointer", m.Src)
		}
		st, ok := pt.Elem().Underlying().(*types.Struct)
		if !ok {
			env.fail("modifies %s: not a struct pointer", m.Src)
		}
		for i := 0; i < st.NumFields(); i++ {
			if st.Field(i).Name() == m.Name {
				a := e.fieldAddr(v.T, pt.Elem(), i)
				if a.Heap != "" {
					return []modTarget{{heap: a.Heap, obj: a.Obj}}, false
				}
				return e.structTargets(a.Sub, st.Field(i).Type(), false), false
			}
		}
		env.fail("modifies %s: no such field", m.Src)
	case "object":
		v := env.elab(m.X)
		pt, ok := v.Ty.Go.Underlying().(*types.Pointer)
		if !ok {
			env.fail("modifies %s: not a pointer", m.Src)
		}
		return e.structTargets(v.T, pt.Elem(), false), false
	case "cell":
		v := env.elab(m.X)
		pt, ok := v.Ty.Go.Underlying().(*types.Pointer)
		if !ok {
			env.fail("modifies %s: not a pointer", m.Src)
		}
		a := e.cellAddr(v.T, pt.Elem())
		if a.Heap == "" {
			return e.structTargets(v.T, pt.Elem(), false), false
		}
		return []modTarget{{a.Heap, a.Obj}}, false
	case "map":
		v := env.elab(m.X)
		mt, ok := v.Ty.Go.Underlying().(*types.Map)
		if !ok {
			env.fail("modifies %s: not a map", m.Src)
		}
		kty, vty := tyOfGo(mt.Key()), tyOfGo(mt.Elem())
		e.ensureSortDecl(vty)
		e.mapTypeTag(v.T, mt)
		pn, vn := mapPHeapName(kty, vty), mapVHeapName(kty, vty)
		e.regHeap(pn, "(Array Int (Array "+kty.Sort()+" Bool))")
		e.regHeap(vn, "(Array Int (Array "+kty.Sort()+" "+vty.Sort()+"))")
		e.regHeap(mapLHeapName(), "(Array Int Int)")
		return []modTarget{{pn, v.T}, {vn, v.T}, {mapLHeapName(), v.T}}, false
	case "elems":
		v := env.elab(m.X)
		sl, ok := v.Ty.Go.Underlying().(*types.Slice)
		if !ok {
			env.fail("modifies %s: not a slice", m.Src)
		}
		a := e.elemAddr(v, "0", sl.Elem())
		if a.Heap == "" {
			return nil, false
		}
		return []modTarget{{a.Heap, a.Obj}}, false
	}
	return nil, false
}

// structTargets: all field heaps of the struct object ref (recursively through embedded structs).
func (e *Exec) structTargets(ref string, t types.Type, anyObj bool) []modTarget {
	st, ok := t.Underlying().(*types.Struct)
	if !ok || isTimeType(t) {
		return nil
	}
	var out []modTarget
	for i := 0; i < st.NumFields(); i++ {
		a := e.fieldAddr(ref, t, i)
		if a.Heap != "" {
			obj := a.Obj
			if anyObj {
				obj = ""
			}
			out = append(out, modTarget{a.Heap, obj})
		} else {
			out = append(out, e.structTargets(a.Sub, st.Field(i).Type(), anyObj)...)
		}
	}
	return out
}

func (e *Exec) havocTargets(f *frame, st *State, targets []modTarget, everything bool, ins ssa.Instruction) {
	if everything {
		e.frameCheckAll(f, st, ins)
		e.havocAll(st, nil)
		return
	}
	for _, t := range targets {
		e.frameCheckTarget(f, st, t, ins)
		if t.obj == "" {
			e.havoc(st, t.heap)
			continue
		}
		// havoc only this object's entry
		h := e.get(st, t.heap)
		sort := e.heapSort[t.heap]
		elemSort := arrayElemSort(sort)
		fv := e.S.declare(e.S.freshName(t.heap+".hv"), elemSort)
		e.setDef(st, t.heap, app("store", h, t.obj, fv))
	}
}

// arrayElemSort: "(Array Int X)" -> "X"
func arrayElemSort(s string) string {
	s = strings.TrimSpace(s)
	if !strings.HasPrefix(s, "(Array ") {
		return s
	}
	inner := s[len("(Array ") : len(s)-1]
	// skip the index sort
	d := 0
	for i := 0; i < len(inner); i++ {
		switch inner[i] {
		case '(':
			d++
		case ')':
			d--
		case ' ':
			if d == 0 {
				return strings.TrimSpace(inner[i+1:])
			}
		}
	}
	return inner
}

// ---------------------------------------------------------------------------
// frame checking (modifies clauses of the function under verification)
// ---------------------------------------------------------------------------

type topFrame struct {
	everything bool
	targets    []modTarget
	entryTop   string
	active     bool
}

func (e *Exec) frameCheckStore(f *frame, st *State, a *Addr, ins ssa.Instruction) {
	if f.mode == "spec" {
		panic(execAbort{"store in spec-mode execution of " + f.fn.String()})
	}
	if a.Sub != "" {
		for _, t := range e.structTargets(a.Sub, a.Ty.Go, false) {
			e.frameCheckTarget(f, st, t, ins)
		}
		return
	}
	e.frameCheckTarget(f, st, modTarget{a.Heap, a.Obj}, ins)
}

func (e *Exec) frameCheckMap(f *frame, st *State, m string, ins ssa.Instruction) {
	e.frameCheckTarget(f, st, modTarget{"map", m}, ins)
}

func (e *Exec) frameCheckAll(f *frame, st *State, ins ssa.Instruction) {
	if !e.top.active || e.top.everything {
		return
	}
	e.oblig(st, "frame", "everything", "false", ins.String(), e.position(ins.Pos()))
}

func (e *Exec) frameCheckTarget(f *frame, st *State, t modTarget, ins ssa.Instruction) {
	if !e.top.active || e.top.everything || f.mode == "spec" {
		return
	}
	if strings.HasPrefix(t.heap, "IT.") {
		return
	}
	// an embedded struct (sub-object) belongs to the object it is part of
	root := subRoot(t.obj)
	// a sub-object address that was given a name: follow the definition
	for i := 0; i < 8; i++ {
		if def, ok := e.subAlias[root]; ok {
			root = subRoot(def)
		} else {
			break
		}
	}
	if root != "" && e.allAllocs[root] {
		return
	}
	var alts []string
	if root != "" {
		alts = append(alts, app(">", root, e.top.entryTop))
	}
	for _, tt := range e.top.targets {
		same := tt.heap == t.heap || (t.heap == "map" && strings.HasPrefix(tt.heap, "M")) // map contents: any of MP/MV/ML target for that map
		if !same {
			continue
		}
		if tt.obj == "" {
			return
		}
		if t.obj != "" {
			alts = append(alts, eq(t.obj, tt.obj))
		}
	}
	what := t.heap
	e.oblig(st, "frame", what, or(alts...), ins.String(), e.position(ins.Pos()))
}

// ---------------------------------------------------------------------------
// unmodelled calls
// ---------------------------------------------------------------------------

func (e *Exec) unmodelled(f *frame, st *State, ci calleeInfo, c *ssa.CallCommon, args []Val, sig *types.Signature, ins ssa.Instruction) Val {
	e.Assumptions["unmodelled-call:"+ci.name+"@"+displayName(f.fn)] = true
	if !c.IsInvoke() {
		if _, isFn := c.Value.(*ssa.Function); !isFn {
			fv := e.value(f, c.Value)
			if fv.T != "" {
				e.panicObl(f, st, "nil-func-call", not(eq(fv.T, "0")), ins)
			}
		}
	}
	// havoc everything reachable by type from the arguments
	everything := false
	heaps := map[string]bool{}
	seen := map[string]bool{}
	var ats []types.Type
	if c.IsInvoke() {
		everything = true
	}
	for _, a := range c.Args {
		ats = append(ats, a.Type())
	}
	for i, a := range args {
		if a.Addr != nil && a.Addr.Heap != "" {
			heaps[a.Addr.Heap] = true
		}
		_ = i
	}
	for _, t := range ats {
		if e.typeReach(t, heaps, seen) {
			everything = true
		}
	}
	if everything {
		e.frameCheckAll(f, st, ins)
		e.havocAll(st, e.isGhostName)
	} else {
		var hs []string
		for h := range heaps {
			hs = append(hs, h)
		}
		sort.Strings(hs)
		e.bumpTop(st)
		for _, h := range hs {
			e.frameCheckTarget(f, st, modTarget{h, ""}, ins)
			e.havoc(st, h)
		}
	}
	var rets []Val
	for i := 0; i < sig.Results().Len(); i++ {
		rets = append(rets, e.freshVal(st, f.prefix+"unm."+sanitize(shortName(ci.name))+fmt.Sprintf(".r%d", i), sig.Results().At(i).Type()))
	}
	return packResults(rets, sig)
}

func shortName(s string) string {
	if i := strings.LastIndex(s, "/"); i >= 0 {
		return s[i+1:]
	}
	return s
}

// typeReach collects the heaps reachable (by static type) from a value of type t that a callee
// could write through. Returns true if anything could be reached (interfaces, funcs).
func (e *Exec) typeReach(t types.Type, heaps map[string]bool, seen map[string]bool) bool {
	key := types.TypeString(t, nil)
	if seen[key] {
		return false
	}
	seen[key] = true
	if isTimeType(t) {
		return false
	}
	switch u := t.Underlying().(type) {
	case *types.Basic:
		return false
	case *types.Pointer:
		el := u.Elem()
		if st, ok := el.Underlying().(*types.Struct); ok && !isTimeType(el) {
			any := false
			for i := 0; i < st.NumFields(); i++ {
				a := e.fieldAddr("0", el, i)
				if a.Heap != "" {
					heaps[a.Heap] = true
				}
				if e.typeReach(st.Field(i).Type(), heaps, seen) {
					any = true
				}
			}
			return any
		}
		if _, ok := el.Underlying().(*types.Array); !ok {
			a := e.cellAddr("0", el)
			if a.Heap != "" {
				heaps[a.Heap] = true
			}
		}
		return e.typeReach(el, heaps, seen)
	case *types.Struct:
		any := false
		for i := 0; i < u.NumFields(); i++ {
			if e.typeReach(u.Field(i).Type(), heaps, seen) {
				any = true
			}
		}
		return any
	case *types.Slice:
		if !isStructValType(u.Elem()) {
			ety := tyOfGo(u.Elem())
			name := elemHeapName(ety)
			e.regHeap(name, "(Array Int (Array Int "+ety.Sort()+"))")
			e.ensureSortDecl(ety)
			heaps[name] = true
		}
		return e.typeReach(u.Elem(), heaps, seen)
	case *types.Array:
		return e.typeReach(u.Elem(), heaps, seen)
	case *types.Map:
		kty, vty := tyOfGo(u.Key()), tyOfGo(u.Elem())
		e.ensureSortDecl(vty)
		pn, vn := mapPHeapName(kty, vty), mapVHeapName(kty, vty)
		e.regHeap(pn, "(Array Int (Array "+kty.Sort()+" Bool))")
		e.regHeap(vn, "(Array Int (Array "+kty.Sort()+" "+vty.Sort()+"))")
		e.regHeap(mapLHeapName(), "(Array Int Int)")
		heaps[pn], heaps[vn], heaps[mapLHeapName()] = true, true, true
		return e.typeReach(u.Elem(), heaps, seen)
	case *types.Interface, *types.Signature, *types.Chan:
		return true
	}
	return false
}

// ---------------------------------------------------------------------------
// builtins
// ---------------------------------------------------------------------------

func (e *Exec) builtin(f *frame, st *State, name string, c *ssa.CallCommon, args []Val, ins ssa.Instruction) Val {
	switch name {
	case "len":
		v := args[0]
		switch v.Ty.K {
		case KString:
			return Val{T: app("str.len", v.T), Ty: tyInt}
		case KSlice:
			return Val{T: app("sl-len", v.T), Ty: tyInt}
		case KMap:
			e.guardMapUse(f, st, v, false, ins)
			l := e.mapLen(st, v.T)
			e.S.assume(app(">=", l, "0"))
			e.S.assume(implies(eq(v.T, "0"), eq(l, "0")))
			return Val{T: l, Ty: tyInt}
		}
		if pt, ok := c.Args[0].Type().Underlying().(*types.Pointer); ok {
			if arr, ok := pt.Elem().Underlying().(*types.Array); ok {
				return Val{T: smtInt(arr.Len()), Ty: tyInt}
			}
		}
		return e.freshVal(st, f.prefix+"len", types.Typ[types.Int])
	case "cap":
		v := args[0]
		r := e.freshVal(st, f.prefix+"cap", types.Typ[types.Int])
		if v.Ty.K == KSlice {
			e.S.assume(app(">=", r.T, app("sl-len", v.T)))
		}
		return r
	case "append":
		return e.builtinAppend(f, st, c, args, ins)
	case "delete":
		m, k := args[0], args[1]
		mt := c.Args[0].Type().Underlying().(*types.Map)
		e.frameCheckMap(f, st, m.T, ins)
		e.guardMapUse(f, st, m, true, ins)
		e.mapDelete(st, m.T, k.T, mt)
		return Val{}
	case "print", "println", "noop":
		return Val{}
	case "recover":
		return Val{T: "(mk-iface 0 0)", Ty: tyIface}
	case "min", "max":
		v := args[0]
		for _, a := range args[1:] {
			if name == "min" {
				v = Val{T: ite(app("<=", v.T, a.T), v.T, a.T), Ty: v.Ty}
			} else {
				v = Val{T: ite(app(">=", v.T, a.T), v.T, a.T), Ty: v.Ty}
			}
		}
		return v
	case "ssa:wrapnilchk":
		e.panicObl(f, st, "nilderef", not(eq(args[0].T, "0")), ins)
		return args[0]
	case "copy":
		e.abstracted(f, "copy builtin")
		dst := args[0]
		sl := c.Args[0].Type().Underlying().(*types.Slice)
		a := e.elemAddr(dst, "0", sl.Elem())
		if a.Heap != "" {
			e.frameCheckTarget(f, st, modTarget{a.Heap, a.Obj}, ins)
			e.havoc(st, a.Heap)
		}
		return e.freshVal(st, f.prefix+"copy", types.Typ[types.Int])
	}
	panic(execAbort{"unsupported builtin " + name})
}

func (e *Exec) builtinAppend(f *frame, st *State, c *ssa.CallCommon, args []Val, ins ssa.Instruction) Val {
	s, t := args[0], args[1]
	sl := c.Args[0].Type().Underlying().(*types.Slice)
	rty := tyOfGo(c.Args[0].Type())
	ety := tyOfGo(sl.Elem())
	r := e.allocRef(st, "append")
	e.allAllocs[r] = true
	lenS := app("sl-len", s.T)
	var lenT string
	if t.Ty.K == KString {
		lenT = app("str.len", t.T)
	} else {
		lenT = app("sl-len", t.T)
	}
	res := Val{T: app("mk-slice", r, "0", app("+", lenS, lenT)), Ty: rty}
	if isStructValType(sl.Elem()) || t.Ty.K == KString {
		e.abstracted(f, "append of struct/string elements")
		return res
	}
	name := elemHeapName(ety)
	e.regHeap(name, "(Array Int (Array Int "+ety.Sort()+"))")
	e.ensureSortDecl(ety)
	E := e.get(st, name)
	na := e.S.declare(e.S.freshName("append.arr"), "(Array Int "+ety.Sort()+")")
	// prefix copied from s
	e.S.assume(fmt.Sprintf("(forall ((i Int)) (=> (and (<= 0 i) (< i %s)) (= (select %s i) (select (select %s (sl-base %s)) i))))", lenS, na, E, s.T))
	// suffix from t: constant-length packs are expanded, otherwise quantified
	if n, ok := constLen(t.T); ok && n <= 8 {
		for j := 0; j < n; j++ {
			e.S.assume(eq(app("select", na, app("+", lenS, smtInt(int64(j)))), app("select", app("select", E, app("sl-base", t.T)), smtInt(int64(j)))))
		}
	} else {
		e.S.assume(fmt.Sprintf("(forall ((j Int)) (=> (and (<= 0 j) (< j %s)) (= (select %s (+ %s j)) (select (select %s (sl-base %s)) j))))", lenT, na, lenS, E, t.T))
	}
	e.setDef(st, name, app("store", E, r, na))
	return res
}

// constLen recognises (mk-slice base off N) with literal N, through one level of definition.
func constLen(t string) (int, bool) {
	if !strings.HasPrefix(t, "(mk-slice ") {
		return 0, false
	}
	parts := strings.Fields(strings.TrimSuffix(t, ")"))
	if len(parts) != 4 {
		return 0, false
	}
	n := 0
	for _, ch := range parts[3] {
		if ch < '0' || ch > '9' {
			return 0, false
		}
		n = n*10 + int(ch-'0')
	}
	return n, true
}

// ---------------------------------------------------------------------------
// static write-set of an instruction (for loop havoc)
// ---------------------------------------------------------------------------

func (e *Exec) instrWrites(f *frame, ins ssa.Instruction, set map[string]bool) {
	switch x := ins.(type) {
	case *ssa.Store:
		e.pointerHeaps(x.Addr, set)
	case *ssa.MapUpdate:
		heaps := map[string]bool{}
		e.typeReach(x.Map.Type(), heaps, map[string]bool{})
		for h := range heaps {
			if strings.HasPrefix(h, "M") {
				set[h] = true
			}
		}
	case *ssa.Next:
		if it := f.iters[x.Iter]; it != nil && it.visited != "" {
			set[it.visited] = true
		}
	case *ssa.Call:
		e.callWrites(f, x.Common(), set, 0)
	}
}

func (e *Exec) pointerHeaps(p ssa.Value, set map[string]bool) {
	switch d := p.(type) {
	case *ssa.FieldAddr:
		pt := d.X.Type().Underlying().(*types.Pointer)
		a := e.fieldAddr("0", pt.Elem(), d.Field)
		if a.Heap != "" {
			set[a.Heap] = true
		} else {
			for _, t := range e.structTargets("0", a.Ty.Go, true) {
				set[t.heap] = true
			}
		}
		return
	case *ssa.IndexAddr:
		switch t := d.X.Type().Underlying().(type) {
		case *types.Slice:
			if !isStructValType(t.Elem()) {
				set[elemHeapName(tyOfGo(t.Elem()))] = true
				e.regHeap(elemHeapName(tyOfGo(t.Elem())), "(Array Int (Array Int "+tyOfGo(t.Elem()).Sort()+"))")
			}
		case *types.Pointer:
			arr := t.Elem().Underlying().(*types.Array)
			if !isStructValType(arr.Elem()) {
				set[elemHeapName(tyOfGo(arr.Elem()))] = true
				e.regHeap(elemHeapName(tyOfGo(arr.Elem())), "(Array Int (Array Int "+tyOfGo(arr.Elem()).Sort()+"))")
			}
		}
		return
	}
	pt, ok := p.Type().Underlying().(*types.Pointer)
	if !ok {
		return
	}
	a := e.cellAddr("0", pt.Elem())
	if a.Heap != "" {
		set[a.Heap] = true
		return
	}
	for _, t := range e.structTargets("0", pt.Elem(), true) {
		set[t.heap] = true
	}
}

func (e *Exec) callWrites(f *frame, c *ssa.CallCommon, set map[string]bool, depth int) {
	ci := e.resolveCallee(f, c)
	switch ci.kind {
	case ckBuiltin:
		switch ci.name {
		case "delete":
			heaps := map[string]bool{}
			e.typeReach(c.Args[0].Type(), heaps, map[string]bool{})
			for h := range heaps {
				if strings.HasPrefix(h, "M") {
					set[h] = true
				}
			}
		case "append", "copy":
			if sl, ok := c.Args[0].Type().Underlying().(*types.Slice); ok && !isStructValType(sl.Elem()) {
				n := elemHeapName(tyOfGo(sl.Elem()))
				e.regHeap(n, "(Array Int (Array Int "+tyOfGo(sl.Elem()).Sort()+"))")
				set[n] = true
			}
		}
	case ckInline:
		if depth > 8 {
			return
		}
		for _, b := range ci.fn.Blocks {
			for _, ins := range b.Instrs {
				switch x := ins.(type) {
				case *ssa.Store:
					e.pointerHeaps(x.Addr, set)
				case *ssa.MapUpdate:
					heaps := map[string]bool{}
					e.typeReach(x.Map.Type(), heaps, map[string]bool{})
					for h := range heaps {
						if strings.HasPrefix(h, "M") {
							set[h] = true
						}
					}
				case *ssa.Call:
					e.callWrites(nil, x.Common(), set, depth+1)
				case *ssa.Defer:
					e.callWrites(nil, &x.Call, set, depth+1)
				}
			}
		}
	case ckContract:
		if ci.con.Pure {
			return
		}
		for _, m := range ci.con.Modifies {
			switch m.Kind {
			case "ghost":
				set["G."+m.Name] = true
			default:
				// resolve by type with dummy receiver/args
				env := e.dummyEnv(ci, c)
				func() {
					defer func() {
						if r := recover(); r != nil {
							if _, ok := r.(elabError); ok {
								return
							}
							panic(r)
						}
					}()
					ts, _ := e.resolveMod(env, m)
					for _, t := range ts {
						set[t.heap] = true
					}
				}()
			}
		}
	case ckUnmodelled:
		heaps := map[string]bool{}
		seen := map[string]bool{}
		for _, a := range c.Args {
			e.typeReach(a.Type(), heaps, seen)
		}
		for h := range heaps {
			set[h] = true
		}
	}
}

// dummyEnv: an environment with correctly typed placeholder arguments, used only to find
// out which heaps a modifies clause names.
func (e *Exec) dummyEnv(ci calleeInfo, c *ssa.CallCommon) *Env {
	sig := c.Signature()
	n := len(c.Args)
	if c.IsInvoke() {
		n++
	}
	names := contractParamNames(ci, sig, c.IsInvoke(), n)
	env := &Env{E: e, Vars: map[string]Val{}, St: &State{Reach: "true", Vars: map[string]string{}, PH: &paramHeaps{used: map[string]bool{}}},
		Imports: e.W.ImportsOf[ci.con], Pkg: ci.con.PkgPath, Where: "modifies of " + ci.con.Key}
	i := 0
	if c.IsInvoke() {
		env.Vars[names[0]] = Val{T: "(mk-iface 0 0)", Ty: tyOfGo(c.Value.Type())}
		i = 1
	}
	for j, a := range c.Args {
		if i+j < len(names) {
			ty := tyOfGo(a.Type())
			env.Vars[names[i+j]] = Val{T: ty.Zero(e.S), Ty: ty}
		}
	}
	return env
}

func (e *Exec) callMayWriteEverything(f *frame, c *ssa.CallCommon) bool {
	return e.callEverything(f, c, 0)
}

func (e *Exec) callEverything(f *frame, c *ssa.CallCommon, depth int) bool {
	ci := e.resolveCallee(f, c)
	switch ci.kind {
	case ckContract:
		for _, m := range ci.con.Modifies {
			if m.Kind == "everything" {
				return true
			}
		}
	case ckUnmodelled:
		if c.IsInvoke() {
			return true
		}
		heaps := map[string]bool{}
		seen := map[string]bool{}
		for _, a := range c.Args {
			if e.typeReach(a.Type(), heaps, seen) {
				return true
			}
		}
	case ckInline:
		if depth > 8 {
			return true
		}
		for _, b := range ci.fn.Blocks {
			for _, ins := range b.Instrs {
				switch x := ins.(type) {
				case *ssa.Call:
					if e.callEverything(nil, x.Common(), depth+1) {
						return true
					}
				case *ssa.Go:
					return true
				}
			}
		}
	}
	return false
}

// subRoot strips the sub-object address functions off a reference term: (sub.F (sub.G r)) -> r.
func subRoot(t string) string {
	for {
		if !(strings.HasPrefix(t, "(sub.") || strings.HasPrefix(t, "(|sub.") || strings.HasPrefix(t, "(esub.") || strings.HasPrefix(t, "(|esub.")) {
			return t
		}
		// (fn arg [idx]) : take the first argument
		i := strings.IndexByte(t, ' ')
		if i < 0 {
			return t
		}
		rest := t[i+1 : len(t)-1]
		if strings.HasPrefix(rest, "(") {
			d := 0
			for j := 0; j < len(rest); j++ {
				if rest[j] == '(' {
					d++
				} else if rest[j] == ')' {
					d--
					if d == 0 {
						rest = rest[:j+1]
						break
					}
				}
			}
		} else if k := strings.IndexByte(rest, ' '); k >= 0 {
			rest = rest[:k]
		}
		t = rest
	}
}


// ---- lock discipline (C16): no lock is acquired, and no function that may acquire one is called,
// while a lock is held — so locks are never nested and lock-order deadlocks cannot occur.
func isLockAcquire(name string) bool {
	switch name {
	case "(*sync.Mutex).Lock", "(*sync.RWMutex).Lock", "(*sync.RWMutex).RLock":
		return true
	}
	return false
}

func (e *Exec) lockOrder(f *frame, st *State, ci calleeInfo, c *ssa.CallCommon, args []Val, ins ssa.Instruction) {
	if f.mode == "spec" || ci.kind == ckBuiltin {
		return
	}
	e.regHeap("G.$held", "(Array Int Bool)")
	held := e.get(st, "G.$held")
	e.regHeap("G.$rheld", "(Array Int Bool)")
	rheld := e.get(st, "G.$rheld")
	if ci.fn != nil && isLockAcquire(ci.fn.String()) && len(args) > 0 {
		e.oblig(st, "lockorder", "acquire", and(eq(held, noLocks), eq(rheld, noLocks)), "a lock is acquired only while no lock is held (no nesting)", e.position(ins.Pos()))
		return
	}
	if ci.kind == ckInline {
		return // the callee's body is executed here: its own acquisitions are checked in place
	}
	may, why := e.W.mayLockCall(e.P, f.fn, c)
	if may {
		e.oblig(st, "lockorder", "call("+ci.name+")", and(eq(held, noLocks), eq(rheld, noLocks)), "a function that may acquire a lock ("+why+") is called only while no lock is held", e.position(ins.Pos()))
	}
}

// mayLockCall: may the call acquire a sync lock? Static callees are followed through the repository's
// code; interface calls are resolved by method name over the repository's types; calls of function
// values of unknown origin are assumed to. Code outside the repository is assumed not to call back
// into it (A-EXT-NOLOCK).
func (w *World) mayLockCall(p *Program, caller *ssa.Function, c *ssa.CallCommon) (bool, string) {
	if w.mayLock == nil {
		w.mayLock = map[*ssa.Function]int{}
	}
	if c.IsInvoke() {
		name := c.Method.Name()
		for _, fn := range p.allRepoFuncs() {
			if fn.Signature.Recv() != nil && fn.Name() == name && types.Implements(fn.Signature.Recv().Type(), c.Value.Type().Underlying().(*types.Interface)) {
				if w.mayLockFn(p, fn) {
					return true, displayName(fn)
				}
			}
		}
		return false, ""
	}
	switch v := c.Value.(type) {
	case *ssa.Function:
		if isLockAcquire(v.String()) {
			return true, v.String()
		}
		if w.mayLockFn(p, v) {
			return true, displayName(v)
		}
		return false, ""
	case *ssa.MakeClosure:
		if fn, ok := v.Fn.(*ssa.Function); ok && w.mayLockFn(p, fn) {
			return true, displayName(fn)
		}
		return false, ""
	case *ssa.Builtin:
		return false, ""
	}
	// a function value whose static type is a named type of a package outside the repository (e.g.
	// context.CancelFunc) was made by that package: A-EXT-NOLOCK applies to it as to any external call
	if n, ok := c.Value.Type().(*types.Named); ok && n.Obj().Pkg() != nil && !strings.HasPrefix(n.Obj().Pkg().Path(), p.ModPath+"/") {
		return false, ""
	}
	return true, "function value of unknown origin"
}

func (w *World) mayLockFn(p *Program, fn *ssa.Function) bool {
	switch w.mayLock[fn] {
	case 1:
		return false // in progress or known not to
	case 2:
		return true
	}
	w.mayLock[fn] = 1
	if fn.Blocks == nil || !inRepo(p, fn) {
		return false
	}
	if con := w.contractFor(fn); con != nil && con.Flags["lockfree"] {
		// declared (and, for an abstracted body, assumed) not to acquire any lock of the service
		return false
	}
	res := false
	for _, b := range fn.Blocks {
		for _, ins := range b.Instrs {
			var c *ssa.CallCommon
			switch x := ins.(type) {
			case *ssa.Call:
				c = x.Common()
			case *ssa.Defer:
				c = x.Common()
			case *ssa.Go:
				continue // runs in another goroutine: not nested in this one's locks
			}
			if c == nil {
				continue
			}
			if may, _ := w.mayLockCall(p, fn, c); may {
				res = true
			}
		}
	}
	for _, an := range fn.AnonFuncs {
		_ = an
	}
	if res {
		w.mayLock[fn] = 2
	}
	return res
}

func inRepo(p *Program, fn *ssa.Function) bool {
	pk := fn.Pkg
	if pk == nil && fn.Parent() != nil {
		pk = fn.Parent().Pkg
	}
	return pk != nil && strings.HasPrefix(pk.Pkg.Path(), p.ModPath+"/")
}
