package main

import (
	"fmt"
	"go/types"
	"sort"
	"strings"

	"golang.org/x/tools/go/ssa"
)

// Env is the elaboration environment of a spec expression.
type Env struct {
	E       *Exec
	Vars    map[string]Val
	St      *State
	Old     *State
	Imports map[string]string
	Pkg     string
	Where   string // for error messages
}

type elabError struct{ msg string }

func (env *Env) fail(f string, a ...interface{}) {
	panic(elabError{env.Where + ": " + fmt.Sprintf(f, a...)})
}

func (env *Env) with(name string, v Val) *Env {
	n := *env
	n.Vars = make(map[string]Val, len(env.Vars)+1)
	for k, x := range env.Vars {
		n.Vars[k] = x
	}
	n.Vars[name] = v
	return &n
}

type paramHeaps struct{ used map[string]bool }

func isIntSorted(t *STy) bool {
	switch t.K {
	case KInt, KRef, KMap, KTime, KFunc:
		return true
	}
	return false
}

func (env *Env) elabBool(x Expr) string {
	v := env.elab(x)
	if v.Ty.K != KBool {
		env.fail("expected bool, got %s", v.Ty)
	}
	return v.T
}

func (env *Env) elab(x Expr) Val {
	e := env.E
	switch x := x.(type) {
	case *EInt:
		return Val{T: x.V, Ty: tyInt}
	case *EStr:
		return Val{T: smtStr(x.V), Ty: tyString}
	case *EBool:
		if x.V {
			return Val{T: "true", Ty: tyBool}
		}
		return Val{T: "false", Ty: tyBool}
	case *ENil:
		return Val{T: "0", Ty: &STy{K: KRef, Name: "nil"}}
	case *EIdent:
		if v, ok := env.Vars[x.Name]; ok {
			return v
		}
		if g, ok := e.W.Ghosts[x.Name]; ok {
			ty, err := e.W.resolveType(g.T, g.Imports, "")
			if err != nil {
				env.fail("ghost %s: %v", x.Name, err)
			}
			if e.refine != nil && e.refine.impl.Ghost == x.Name && env.St.PH == nil {
				e.ensureSortDecl(ty)
				return Val{T: e.refineView(env.St, env), Ty: ty}
			}
			e.regHeap("G."+x.Name, ty.Sort())
			e.ensureSortDecl(ty)
			return Val{T: e.get(env.St, "G."+x.Name), Ty: ty}
		}
		if c, ok := e.constByName(x.Name, env); ok {
			return c
		}
		env.fail("unknown identifier %s", x.Name)
	case *EUn:
		v := env.elab(x.X)
		switch x.Op {
		case "!":
			if v.Ty.K != KBool {
				env.fail("! on non-bool")
			}
			return Val{T: not(v.T), Ty: tyBool}
		case "-":
			return Val{T: "(- " + v.T + ")", Ty: v.Ty}
		}
	case *EBin:
		return env.elabBin(x)
	case *ELet:
		v := env.elab(x.Val)
		return env.with(x.Name, v).elab(x.Body)
	case *ESel:
		// alias.Const (package-level constant / enum value)
		if id, ok := x.X.(*EIdent); ok {
			if _, isVar := env.Vars[id.Name]; !isVar {
				if _, isGhost := e.W.Ghosts[id.Name]; !isGhost {
					if v, ok := e.pkgConst(id.Name, x.Name, env); ok {
						return v
					}
				}
			}
		}
		v := env.elab(x.X)
		return env.selectField(v, x.Name)
	case *EIndex:
		v := env.elab(x.X)
		i := env.elab(x.I)
		return env.index(v, i)
	case *ESlice:
		v := env.elab(x.X)
		if v.Ty.K != KString {
			env.fail("slicing is only supported on strings in specs")
		}
		lo := "0"
		if x.Lo != nil {
			lo = env.elab(x.Lo).T
		}
		hi := "(str.len " + v.T + ")"
		if x.Hi != nil {
			hi = env.elab(x.Hi).T
		}
		return Val{T: fmt.Sprintf("(str.substr %s %s (- %s %s))", v.T, lo, hi, lo), Ty: tyString}
	case *EQuant:
		if e.boundK > 0 {
			allInt := true
			for _, p := range x.Vars {
				if !(p.T.Kind == "name" && p.T.Pkg == "" && p.T.Name == "int") {
					allInt = false
				}
			}
			if allInt && len(x.Vars) <= 2 {
				// bounded-instance mode (counter-model search only): integer quantifiers range over 0..K-1
				var parts []string
				var rec func(i int, en *Env)
				rec = func(i int, en *Env) {
					if i == len(x.Vars) {
						parts = append(parts, en.elabBool(x.Body))
						return
					}
					for k := 0; k < e.boundK; k++ {
						rec(i+1, en.with(x.Vars[i].Name, Val{T: smtInt(int64(k)), Ty: tyInt}))
					}
				}
				rec(0, env)
				if x.Forall {
					return Val{T: and(parts...), Ty: tyBool}
				}
				return Val{T: or(parts...), Ty: tyBool}
			}
		}
		n := *env
		n.Vars = make(map[string]Val, len(env.Vars)+len(x.Vars))
		for k, v := range env.Vars {
			n.Vars[k] = v
		}
		var binders []string
		for _, p := range x.Vars {
			ty, err := e.W.resolveType(p.T, env.Imports, env.Pkg)
			if err != nil {
				env.fail("%v", err)
			}
			e.ensureSortDecl(ty)
			name := "q!" + p.Name
			n.Vars[p.Name] = Val{T: sym(name), Ty: ty}
			binders = append(binders, fmt.Sprintf("(%s %s)", sym(name), ty.Sort()))
		}
		body := n.elabBool(x.Body)
		q := "exists"
		if x.Forall {
			q = "forall"
		}
		return Val{T: fmt.Sprintf("(%s (%s) %s)", q, strings.Join(binders, " "), body), Ty: tyBool}
	case *ETypeAssert:
		v := env.elab(x.X)
		ty, err := e.W.resolveType(x.T, env.Imports, env.Pkg)
		if err != nil {
			env.fail("%v", err)
		}
		if v.Ty.K != KIface {
			env.fail("type assertion on non-interface %s", v.Ty)
		}
		return e.unboxIface(v, ty)
	case *ETypeArg:
		env.fail("type used as a value")
	case *ELit:
		dt, ok := e.W.Types[x.Name]
		if !ok {
			env.fail("unknown datatype %s", x.Name)
		}
		ty := &STy{K: KData, Name: x.Name}
		e.ensureSortDecl(ty)
		args := make([]string, len(dt.Fields))
		for i, f := range dt.Fields {
			found := false
			for j, fn := range x.Fields {
				if fn == f.Name {
					fv := env.elab(x.Vals[j])
					args[i] = fv.T
					found = true
				}
			}
			if !found {
				fty, _ := e.W.resolveType(f.T, dt.Imports, "")
				args[i] = e.zeroOf(fty)
			}
		}
		if len(args) == 0 {
			return Val{T: "mk-" + x.Name, Ty: ty}
		}
		return Val{T: "(mk-" + x.Name + " " + strings.Join(args, " ") + ")", Ty: ty}
	case *ECall:
		return env.elabCall(x)
	}
	env.fail("cannot elaborate %T", x)
	return Val{}
}

func (env *Env) elabBin(x *EBin) Val {
	switch x.Op {
	case "&&":
		return Val{T: and(env.elabBool(x.X), env.elabBool(x.Y)), Ty: tyBool}
	case "||":
		return Val{T: or(env.elabBool(x.X), env.elabBool(x.Y)), Ty: tyBool}
	case "==>":
		return Val{T: implies(env.elabBool(x.X), env.elabBool(x.Y)), Ty: tyBool}
	case "<==>":
		return Val{T: eq(env.elabBool(x.X), env.elabBool(x.Y)), Ty: tyBool}
	}
	a := env.elab(x.X)
	b := env.elab(x.Y)
	switch x.Op {
	case "==", "!=":
		t := env.equal(a, b)
		if x.Op == "!=" {
			t = not(t)
		}
		return Val{T: t, Ty: tyBool}
	case "<", "<=", ">", ">=":
		if a.Ty.K == KString {
			switch x.Op {
			case "<":
				return Val{T: app("str.<", a.T, b.T), Ty: tyBool}
			case "<=":
				return Val{T: app("str.<=", a.T, b.T), Ty: tyBool}
			case ">":
				return Val{T: app("str.<", b.T, a.T), Ty: tyBool}
			default:
				return Val{T: app("str.<=", b.T, a.T), Ty: tyBool}
			}
		}
		return Val{T: app(x.Op, a.T, b.T), Ty: tyBool}
	case "+":
		if a.Ty.K == KString {
			return Val{T: app("str.++", a.T, b.T), Ty: tyString}
		}
		return Val{T: app("+", a.T, b.T), Ty: a.Ty}
	case "++":
		return Val{T: app("str.++", a.T, b.T), Ty: tyString}
	case "-":
		return Val{T: app("-", a.T, b.T), Ty: a.Ty}
	case "*":
		return Val{T: app("*", a.T, b.T), Ty: a.Ty}
	case "/":
		return Val{T: app("div", a.T, b.T), Ty: a.Ty}
	case "%":
		return Val{T: app("mod", a.T, b.T), Ty: a.Ty}
	}
	env.fail("unknown operator %s", x.Op)
	return Val{}
}

func (env *Env) equal(a, b Val) string {
	isNil := func(v Val) bool { return v.Ty.K == KRef && v.Ty.Name == "nil" }
	if isNil(b) {
		a, b = b, a
	}
	if isNil(a) {
		switch b.Ty.K {
		case KIface:
			return eq("(if-tag "+b.T+")", "0")
		case KSlice:
			return eq("(sl-base "+b.T+")", "0")
		}
		return eq(b.T, "0")
	}
	if a.Ty.Sort() != b.Ty.Sort() {
		env.fail("comparison of different sorts %s (%s) and %s (%s)", a.Ty, a.Ty.Sort(), b.Ty, b.Ty.Sort())
	}
	return eq(a.T, b.T)
}

// selectField: x.f
func (env *Env) selectField(v Val, name string) Val {
	e := env.E
	switch v.Ty.K {
	case KRef:
		if v.Ty.Go == nil {
			env.fail("field %s of untyped ref", name)
		}
		pt, ok := v.Ty.Go.Underlying().(*types.Pointer)
		if !ok {
			env.fail("field %s of non-pointer %s", name, v.Ty.Go)
		}
		st, ok := pt.Elem().Underlying().(*types.Struct)
		if !ok {
			env.fail("field %s of pointer to non-struct %s", name, pt.Elem())
		}
		for i := 0; i < st.NumFields(); i++ {
			if st.Field(i).Name() == name {
				a := e.fieldAddr(v.T, pt.Elem(), i)
				return e.load(env.St, a)
			}
		}
		env.fail("no field %s in %s", name, pt.Elem())
	case KStruct:
		st, ok := v.Ty.Go.Underlying().(*types.Struct)
		if !ok {
			env.fail("field %s of opaque struct", name)
		}
		e.S.ensureStruct(v.Ty.Go)
		for i := 0; i < st.NumFields(); i++ {
			if st.Field(i).Name() == name {
				return Val{T: app(sym(structFieldSel(v.Ty.Go, i)), v.T), Ty: tyOfGo(st.Field(i).Type())}
			}
		}
		env.fail("no field %s in %s", name, v.Ty.Go)
	case KData:
		dt := e.W.Types[v.Ty.Name]
		for _, f := range dt.Fields {
			if f.Name == name {
				fty, err := e.W.resolveType(f.T, dt.Imports, "")
				if err != nil {
					env.fail("%v", err)
				}
				return Val{T: app(sym(v.Ty.Name+"."+name), v.T), Ty: fty}
			}
		}
		env.fail("no field %s in datatype %s", name, v.Ty.Name)
	case KIface:
		switch name {
		case "tag":
			return Val{T: app("if-tag", v.T), Ty: tyInt}
		case "pay":
			return Val{T: app("if-pay", v.T), Ty: tyInt}
		}
	case KSlice:
		switch name {
		case "base":
			return Val{T: app("sl-base", v.T), Ty: tyInt}
		case "off":
			return Val{T: app("sl-off", v.T), Ty: tyInt}
		}
	}
	env.fail("cannot select .%s on %s", name, v.Ty)
	return Val{}
}

func (env *Env) index(v, i Val) Val {
	e := env.E
	switch v.Ty.K {
	case KArr:
		return Val{T: app("select", v.T, i.T), Ty: v.Ty.Elem}
	case KString:
		return Val{T: "(str.to_code (str.at " + v.T + " " + i.T + "))", Ty: tyInt}
	case KSlice:
		sl := v.Ty.Go.Underlying().(*types.Slice)
		a := e.elemAddr(v, i.T, sl.Elem())
		return e.load(env.St, a)
	case KMap:
		mt := v.Ty.Go.Underlying().(*types.Map)
		val, _ := e.mapLookup(env.St, v.T, i.T, mt)
		return val
	}
	env.fail("cannot index %s", v.Ty)
	return Val{}
}

func (env *Env) elabCall(x *ECall) Val {
	e := env.E
	if x.Recv != nil {
		recv := env.elab(x.Recv)
		// datatype update: v.with_f(e)
		if recv.Ty.K == KData && strings.HasPrefix(x.Fun, "with_") {
			dt := e.W.Types[recv.Ty.Name]
			fname := strings.TrimPrefix(x.Fun, "with_")
			nv := env.elab(x.Args[0])
			var args []string
			found := false
			for _, f := range dt.Fields {
				if f.Name == fname {
					args = append(args, nv.T)
					found = true
				} else {
					args = append(args, app(sym(recv.Ty.Name+"."+f.Name), recv.T))
				}
			}
			if !found {
				env.fail("no field %s in %s", fname, recv.Ty.Name)
			}
			return Val{T: "(mk-" + recv.Ty.Name + " " + strings.Join(args, " ") + ")", Ty: recv.Ty}
		}
		// method call on a Go value: symbolic execution of a simple pure method
		if recv.Ty.Go == nil {
			env.fail("method call %s on non-Go value", x.Fun)
		}
		var args []Val
		for _, a := range x.Args {
			args = append(args, env.elab(a))
		}
		return env.callGoMethod(recv, x.Fun, args)
	}
	arg := func(i int) Val {
		if i >= len(x.Args) {
			env.fail("%s: missing argument %d", x.Fun, i)
		}
		return env.elab(x.Args[i])
	}
	switch x.Fun {
	case "old":
		if env.Old == nil {
			env.fail("old() not allowed here")
		}
		n := *env
		n.St = env.Old
		return n.elab(x.Args[0])
	case "len":
		v := arg(0)
		switch v.Ty.K {
		case KString:
			return Val{T: app("str.len", v.T), Ty: tyInt}
		case KSlice:
			return Val{T: app("sl-len", v.T), Ty: tyInt}
		case KMap:
			e.regHeap(mapLHeapName(), "(Array Int Int)")
			return Val{T: app("select", e.get(env.St, mapLHeapName()), v.T), Ty: tyInt}
		}
		env.fail("len of %s", v.Ty)
	case "ite":
		c := env.elabBool(x.Args[0])
		a, b := arg(1), arg(2)
		if a.Ty.Sort() != b.Ty.Sort() {
			env.fail("ite branches of different sorts %s / %s", a.Ty, b.Ty)
		}
		ty := a.Ty
		if ty.K == KRef && ty.Name == "nil" {
			ty = b.Ty
		}
		return Val{T: ite(c, a.T, b.T), Ty: ty}
	case "HasPrefix":
		return Val{T: app("str.prefixof", arg(1).T, arg(0).T), Ty: tyBool}
	case "HasSuffix":
		return Val{T: app("str.suffixof", arg(1).T, arg(0).T), Ty: tyBool}
	case "Contains":
		return Val{T: app("str.contains", arg(0).T, arg(1).T), Ty: tyBool}
	case "IndexOf":
		return Val{T: app("str.indexof", arg(0).T, arg(1).T, "0"), Ty: tyInt}
	case "IndexFrom":
		return Val{T: app("str.indexof", arg(0).T, arg(1).T, arg(2).T), Ty: tyInt}
	case "Substr":
		return Val{T: app("str.substr", arg(0).T, arg(1).T, arg(2).T), Ty: tyString}
	case "At":
		return Val{T: app("str.at", arg(0).T, arg(1).T), Ty: tyString}
	case "Itoa":
		v := arg(0)
		return Val{T: ite(app(">=", v.T, "0"), app("str.from_int", v.T), app("str.++", "\"-\"", app("str.from_int", app("-", v.T)))), Ty: tyString}
	case "ReplaceFirst":
		return Val{T: app("str.replace", arg(0).T, arg(1).T, arg(2).T), Ty: tyString}
	case "min":
		a, b := arg(0), arg(1)
		return Val{T: ite(app("<=", a.T, b.T), a.T, b.T), Ty: a.Ty}
	case "max":
		a, b := arg(0), arg(1)
		return Val{T: ite(app(">=", a.T, b.T), a.T, b.T), Ty: a.Ty}
	case "istype":
		v := arg(0)
		ta, ok := x.Args[1].(*ETypeArg)
		var te *TypeExpr
		if ok {
			te = ta.T
		} else if sel, ok := x.Args[1].(*ESel); ok {
			if id, ok := sel.X.(*EIdent); ok {
				te = &TypeExpr{Kind: "name", Pkg: id.Name, Name: sel.Name}
			}
		} else if id, ok := x.Args[1].(*EIdent); ok {
			te = &TypeExpr{Kind: "name", Name: id.Name}
		}
		if te == nil {
			env.fail("istype: second argument must be a type")
		}
		gt, err := e.W.resolveGoType(te, env.Imports, env.Pkg)
		if err != nil {
			env.fail("%v", err)
		}
		if v.Ty.K != KIface {
			env.fail("istype on non-interface")
		}
		return Val{T: eq(app("if-tag", v.T), smtInt(int64(e.S.tagOf(gt)))), Ty: tyBool}
	case "store":
		a, k, v := arg(0), arg(1), arg(2)
		return Val{T: app("store", a.T, k.T, v.T), Ty: a.Ty}
	case "fresh":
		// fresh(p): p was allocated during this call (p > old top)
		v := arg(0)
		if env.Old == nil {
			env.fail("fresh() needs an old state")
		}
		t := v.T
		if v.Ty.K == KSlice {
			t = app("sl-base", v.T)
		}
		return Val{T: app(">", t, e.get(env.Old, topVar)), Ty: tyBool}
	case "watermark":
		return Val{T: e.get(env.St, topVar), Ty: tyInt}
	case "allocated":
		v := arg(0)
		return Val{T: and(app("<=", v.T, e.get(env.St, topVar)), app(">", v.T, "0")), Ty: tyBool}
	case "mapHas":
		m, k := arg(0), arg(1)
		mt := m.Ty.Go.Underlying().(*types.Map)
		_, ok := e.mapLookup(env.St, m.T, k.T, mt)
		return Val{T: ok, Ty: tyBool}
	case "held":
		// held(mu): the lock object is held by the current goroutine (ghost)
		v := arg(0)
		e.regHeap("G.$held", "(Array Int Bool)")
		return Val{T: app("select", e.get(env.St, "G.$held"), v.T), Ty: tyBool}
	case "nolocks":
		// nolocks(): the current goroutine holds no lock at all (ghost)
		e.regHeap("G.$held", "(Array Int Bool)")
		e.regHeap("G.$rheld", "(Array Int Bool)")
		return Val{T: and(eq(e.get(env.St, "G.$held"), noLocks), eq(e.get(env.St, "G.$rheld"), noLocks)), Ty: tyBool}
	case "addr":
		// addr(x.f): the ref of an embedded struct field (sub-object)
		sel, ok := x.Args[0].(*ESel)
		if !ok {
			env.fail("addr() needs x.f")
		}
		base := env.elab(sel.X)
		pt := base.Ty.Go.Underlying().(*types.Pointer)
		st := pt.Elem().Underlying().(*types.Struct)
		for i := 0; i < st.NumFields(); i++ {
			if st.Field(i).Name() == sel.Name {
				a := e.fieldAddr(base.T, pt.Elem(), i)
				if a.Sub == "" {
					env.fail("addr(): field %s is not an embedded struct", sel.Name)
				}
				return Val{T: a.Sub, Ty: tyOfGo(types.NewPointer(st.Field(i).Type()))}
			}
		}
		env.fail("addr(): no field %s", sel.Name)
	case "toreal":
		return Val{T: app("to_real", arg(0).T), Ty: tyReal}
	case "rdiv":
		return Val{T: app("/", arg(0).T, arg(1).T), Ty: tyReal}
	case "deref":
		v := arg(0)
		if v.Ty.Go == nil {
			env.fail("deref of non-Go value")
		}
		if _, ok := v.Ty.Go.Underlying().(*types.Pointer); !ok {
			env.fail("deref of non-pointer %s", v.Ty.Go)
		}
		return e.load(env.St, e.addrOf(v))
	case "string_of_bytes":
		v := arg(0)
		return Val{T: e.bytesToString(v.T), Ty: tyString}
	case "iface_nil":
		return Val{T: "(mk-iface 0 0)", Ty: tyIface}
	case "box":
		// box(x, T): the interface value holding x with dynamic type T
		v := arg(0)
		var te *TypeExpr
		if ta, ok := x.Args[1].(*ETypeArg); ok {
			te = ta.T
		} else if sel, ok := x.Args[1].(*ESel); ok {
			if id, ok := sel.X.(*EIdent); ok {
				te = &TypeExpr{Kind: "name", Pkg: id.Name, Name: sel.Name}
			}
		} else if id, ok := x.Args[1].(*EIdent); ok {
			te = &TypeExpr{Kind: "name", Name: id.Name}
		}
		if te == nil {
			env.fail("box: second argument must be a type")
		}
		gt, err := e.W.resolveGoType(te, env.Imports, env.Pkg)
		if err != nil {
			env.fail("%v", err)
		}
		return e.makeIface(v, gt)
	case "box_string":
		// the interface value holding a Go string
		v := arg(0)
		return e.makeIface(v, types.Typ[types.String])
	}
	// spec function
	if _, ok := e.W.Funcs[x.Fun]; ok {
		var args []Val
		for _, a := range x.Args {
			args = append(args, env.elab(a))
		}
		return env.callSpecFn(x.Fun, args)
	}
	env.fail("unknown function %s", x.Fun)
	return Val{}
}

// callSpecFn applies a spec function, passing the heap versions of the current state.
func (env *Env) callSpecFn(name string, args []Val) Val {
	e := env.E
	info := e.ensureSpecFn(name, env)
	if len(args) != len(info.ptys) {
		env.fail("%s: expected %d arguments, got %d", name, len(info.ptys), len(args))
	}
	var as []string
	for i, a := range args {
		if a.Ty.Sort() != info.ptys[i].Sort() {
			if !(a.Ty.K == KRef && a.Ty.Name == "nil") {
				env.fail("%s: argument %d has sort %s, expected %s", name, i+1, a.Ty.Sort(), info.ptys[i].Sort())
			}
			a.T = info.ptys[i].Zero(e.S)
		}
		as = append(as, a.T)
	}
	for _, h := range info.heaps {
		as = append(as, e.get(env.St, h))
	}
	return Val{T: app(sym(name), as...), Ty: info.ret}
}

// ensureSpecFn emits the definition (or declaration) of a spec function on first use.
func (e *Exec) ensureSpecFn(name string, from *Env) *specFnInfo {
	if info, ok := e.specFnDone[name]; ok {
		if info.busy {
			info.rec = true // recursive: emitted with define-fun-rec after a second elaboration pass
		}
		return info
	}
	f := e.W.Funcs[name]
	info := &specFnInfo{busy: true}
	e.specFnDone[name] = info
	env := &Env{E: e, Vars: map[string]Val{}, Imports: f.Imports, Where: fmt.Sprintf("%s:%d spec func %s", f.File, f.Line, name)}
	ph := &paramHeaps{used: map[string]bool{}}
	env.St = &State{Reach: "true", Vars: map[string]string{}, Epoch: -1, PH: ph}
	var binders []string
	var sorts []string
	for _, p := range f.Params {
		ty, err := e.W.resolveType(p.T, f.Imports, "")
		if err != nil {
			env.fail("%v", err)
		}
		e.ensureSortDecl(ty)
		info.ptys = append(info.ptys, ty)
		pn := "p!" + p.Name
		env.Vars[p.Name] = Val{T: sym(pn), Ty: ty}
		binders = append(binders, fmt.Sprintf("(%s %s)", sym(pn), ty.Sort()))
		sorts = append(sorts, ty.Sort())
	}
	ret, err := e.W.resolveType(f.Ret, f.Imports, "")
	if err != nil {
		env.fail("%v", err)
	}
	e.ensureSortDecl(ret)
	info.ret = ret
	if f.Abstract {
		e.S.declareFun(name, sorts, ret.Sort())
		info.busy = false
		e.Assumptions["abstract:"+name] = true
		e.emitAxiomsFor(name)
		return info
	}
	body := env.elab(f.Body)
	if body.Ty.Sort() != ret.Sort() {
		env.fail("body has sort %s, declared %s", body.Ty.Sort(), ret.Sort())
	}
	for h := range ph.used {
		info.heaps = append(info.heaps, h)
	}
	sort.Strings(info.heaps)
	if info.rec {
		// second pass: the recursive calls now pass the heap parameters
		body = env.elab(f.Body)
	}
	for _, h := range info.heaps {
		binders = append(binders, fmt.Sprintf("(%s %s)", sym("h!"+h), e.heapSort[h]))
	}
	kw := "define-fun"
	if info.rec {
		kw = "define-fun-rec"
	}
	e.S.add(fmt.Sprintf("(%s %s (%s) %s %s)", kw, sym(name), strings.Join(binders, " "), ret.Sort(), body.T))
	e.S.declared[name] = true
	info.busy = false
	return info
}

// emitAxiomsFor emits the axioms that mention the abstract function name.
func (e *Exec) emitAxiomsFor(name string) {
	for _, ax := range e.W.Axioms {
		if ax.Lemma || e.axiomsDone[ax.Name] {
			continue
		}
		if !exprMentions(ax.E, name) {
			continue
		}
		e.axiomsDone[ax.Name] = true
		env := &Env{E: e, Vars: map[string]Val{}, Imports: ax.Imports, Where: fmt.Sprintf("%s:%d axiom %s", ax.File, ax.Line, ax.Name),
			St: &State{Reach: "true", Vars: map[string]string{}}}
		t := env.elabBool(ax.E)
		e.S.assume(t)
		e.Assumptions["axiom:"+ax.Name] = true
	}
}

func exprMentions(x Expr, name string) bool {
	found := false
	walkExpr(x, func(y Expr) {
		if c, ok := y.(*ECall); ok && c.Fun == name && c.Recv == nil {
			found = true
		}
	})
	return found
}

func walkExpr(x Expr, f func(Expr)) {
	if x == nil {
		return
	}
	f(x)
	switch x := x.(type) {
	case *EUn:
		walkExpr(x.X, f)
	case *EBin:
		walkExpr(x.X, f)
		walkExpr(x.Y, f)
	case *ECall:
		if x.Recv != nil {
			walkExpr(x.Recv, f)
		}
		for _, a := range x.Args {
			walkExpr(a, f)
		}
	case *ESel:
		walkExpr(x.X, f)
	case *EIndex:
		walkExpr(x.X, f)
		walkExpr(x.I, f)
	case *ESlice:
		walkExpr(x.X, f)
		walkExpr(x.Lo, f)
		walkExpr(x.Hi, f)
	case *EQuant:
		walkExpr(x.Body, f)
	case *ETypeAssert:
		walkExpr(x.X, f)
	case *ELit:
		for _, v := range x.Vals {
			walkExpr(v, f)
		}
	case *ELet:
		walkExpr(x.Val, f)
		walkExpr(x.Body, f)
	}
}

// ensureSortDecl makes sure datatypes needed by ty are declared.
func (e *Exec) ensureSortDecl(ty *STy) {
	switch ty.K {
	case KStruct:
		e.S.ensureStruct(ty.Go)
	case KArr:
		e.ensureSortDecl(ty.Key)
		e.ensureSortDecl(ty.Elem)
	case KData:
		if e.S.structs[ty.Name] {
			return
		}
		e.S.structs[ty.Name] = true
		dt := e.W.Types[ty.Name]
		var fields []string
		for _, f := range dt.Fields {
			fty, err := e.W.resolveType(f.T, dt.Imports, "")
			if err != nil {
				panic(elabError{fmt.Sprintf("datatype %s: %v", ty.Name, err)})
			}
			e.ensureSortDecl(fty)
			fields = append(fields, fmt.Sprintf("(%s %s)", sym(ty.Name+"."+f.Name), fty.Sort()))
		}
		if len(fields) == 0 {
			e.S.add(fmt.Sprintf("(declare-datatypes ((%s 0)) (((mk-%s))))", ty.Name, ty.Name))
		} else {
			e.S.add(fmt.Sprintf("(declare-datatypes ((%s 0)) (((mk-%s %s))))", ty.Name, ty.Name, strings.Join(fields, " ")))
		}
	}
}

// constByName resolves well-known constant names usable in specs.
func (e *Exec) constByName(name string, env *Env) (Val, bool) {
	switch name {
	case "TZERO":
		return Val{T: "TZERO", Ty: tyTime}, true
	case "SECOND":
		return Val{T: "1000000000", Ty: tyInt}, true
	}
	// package-level constant of the contract's own package
	if env.Pkg != "" {
		if v, ok := e.pkgConstIn(env.Pkg, name); ok {
			return v, true
		}
	}
	return Val{}, false
}

func (e *Exec) pkgConst(alias, name string, env *Env) (Val, bool) {
	path, ok := env.Imports[alias]
	if !ok {
		if _, ok2 := e.P.ByPath[alias]; ok2 {
			path = alias
		} else {
			return Val{}, false
		}
	}
	return e.pkgConstIn(path, name)
}

func (e *Exec) pkgConstIn(path, name string) (Val, bool) {
	pk := e.P.ByPath[path]
	if pk == nil {
		return Val{}, false
	}
	obj := pk.Types.Scope().Lookup(name)
	if obj == nil {
		return Val{}, false
	}
	switch o := obj.(type) {
	case *types.Const:
		return e.constVal(ssa.NewConst(o.Val(), o.Type())), true
	case *types.Var:
		// address of a package-level variable; the value is read from its cell
		if sp := e.P.SSA.ImportedPackage(path); sp != nil {
			if g, ok := sp.Members[name].(*ssa.Global); ok {
				return e.globalAddr(g), true
			}
		}
	}
	return Val{}, false
}

// callGoMethod symbolically executes a simple pure Go method (typically a generated getter) in a spec.
func (env *Env) callGoMethod(recv Val, name string, args []Val) Val {
	e := env.E
	ms := e.P.SSA.MethodSets.MethodSet(recv.Ty.Go)
	for i := 0; i < ms.Len(); i++ {
		if ms.At(i).Obj().Name() != name {
			continue
		}
		fn := e.P.SSA.MethodValue(ms.At(i))
		if fn == nil || fn.Blocks == nil {
			break
		}
		if !e.isSimplePure(fn) {
			env.fail("method %s is not a simple pure function and cannot be used in a spec", fn)
		}
		saveObl, saveCnt := e.Obls, e.oblCount
		e.oblCount = map[string]int{}
		e.inSpec++
		st := env.St.clone()
		st.Reach = "true"
		rets, _ := e.runFunc(fn, append([]Val{recv}, args...), nil, st, "spec")
		e.inSpec--
		e.Obls, e.oblCount = saveObl, saveCnt
		if len(rets) != 1 {
			env.fail("method %s returns %d values", name, len(rets))
		}
		return rets[0]
	}
	env.fail("no method %s on %s", name, recv.Ty.Go)
	return Val{}
}

// zeroOf: zero value of a spec type, including spec datatypes (all fields zero).
func (e *Exec) zeroOf(ty *STy) string {
	if ty.K != KData {
		e.ensureSortDecl(ty)
		return ty.Zero(e.S)
	}
	e.ensureSortDecl(ty)
	dt := e.W.Types[ty.Name]
	if len(dt.Fields) == 0 {
		return "mk-" + ty.Name
	}
	var args []string
	for _, f := range dt.Fields {
		fty, err := e.W.resolveType(f.T, dt.Imports, "")
		if err != nil {
			panic(elabError{err.Error()})
		}
		args = append(args, e.zeroOf(fty))
	}
	return "(mk-" + ty.Name + " " + strings.Join(args, " ") + ")"
}
