#!/usr/bin/env python3
"""Reads /verif/evidence/*.json and lists every repository callee contract some check relied on whose
body (or, for an interface method, whose implementations) no check verified. Interface methods are
verified through `refine` obligations of their implementations; generated protobuf getters are A-PROTO."""
import json,glob,re,sys
verified={}; used={}
for f in sorted(glob.glob('/verif/evidence/C*.json')):
    e=json.load(open(f))
    for fn in e['coverage']['functions_under_contract']:
        verified.setdefault(fn.split('@')[0],set()).add(e['property_id'])
    for a in e['assumptions']:
        s=a if isinstance(a,str) else (a.get('id') or a.get('name') or '')
        if s.startswith('callee-contract:'):
            used.setdefault(s[len('callee-contract:'):],set()).add(e['property_id'])
def short(n):
    n=n.replace('github.com/istio-ecosystem/authservice/internal/','').replace('github.com/istio-ecosystem/authservice/','')
    return re.sub(r'\(\*?([\w.]+)\)\.',r'\1.',n)
IFACES=('Reader.','TLSConfig.','TLSConfigPool.','Handler.','JWKSProvider.','SessionGenerator.','SessionStore.','SessionStoreFactory.')
bad=0
for u in sorted(used):
    s=short(u)
    if s in verified: continue
    if any(('.'+i) in ('.'+s) for i in IFACES):
        print(f"interface method (verified through its implementations' refine obligations): {s}"); continue
    if s=='server.deny':
        print("function value server.deny: verified as server.init$1 (C08)"); continue
    print("NOT VERIFIED BY ANY CHECK:",s,sorted(used[u])); bad+=1
print(f"{len(used)} callee contracts relied on; {len(verified)} functions with verified bodies; {bad} relied on but never verified")
sys.exit(1 if bad else 0)
