#!/usr/bin/env python3
"""Regenerates /verif/MANIFEST.json from tools/claims.json (claimed checks) and the properties file."""
import json, subprocess
props=[json.loads(l)['id'] for l in open('/verif/properties.jsonl')]
claims=json.load(open('/verif/tools/claims.json'))
hooks=subprocess.run(['git','-C','/repo','log','--format=%h %s'],capture_output=True,text=True).stdout.splitlines()
hook_commits=[l.split()[0] for l in hooks if 'verif hook' in l]
checks=[]
for pid in props:
    c=claims['claimed'].get(pid)
    if not c: continue
    checks.append({
     "property_id":pid,
     "quick_cmd":f"./check {pid} quick",
     "thorough_cmd":f"./check {pid} thorough",
     "evidence_file":f"/verif/evidence/{pid}.json",
     "replay_cmd_template":"./check replay {path}",
     "engine":"govc",
     "level_claimed":{"category":"proof","text":c["text"],"design_ref":c.get("design_ref","DESIGN.md section 5 "+pid)},
     "level_note":c["note"],
     "technique":c.get("technique","contract-based deductive verification: VCs generated from go/ssa of the real code against //@ contracts, discharged by cvc5/z3"),
    })
na=[{"property_id":p,"reason":claims['not_applicable'].get(p,"not yet reached by the contract machinery (build in progress; see DESIGN.md section 10 build order)")} for p in props if p not in claims['claimed']]
m={
 "version":1,
 "setup_cmd":"cd /verif/govc && GOFLAGS=-mod=mod GOPROXY=off go build -o /verif/bin/govc .",
 "hooks":{"guard":"verif","enable":"-tags verif","baseline_off_cmd":"cd /repo && GOFLAGS=-mod=mod GOPROXY=off go test -vet=off -count=1 -timeout 25m ./...","source_commits":hook_commits,"add_only":True},
 "engines":[{"name":"govc","path":"/verif/govc","serves_properties":sorted(claims['claimed'].keys()),"kind_free_text":"self-built deductive verifier: verification conditions generated from go/ssa of /repo's working tree (-tags verif) against contracts kept in //go:build verif comment-only files, spec library in /verif/spec, trusted dependency contracts in /verif/trusted; obligations discharged by cvc5 1.0 / z3 5.1 / z3 4.8 raced; counter-models replayed on the real code with go test -overlay"}],
 "checks":checks,
 "not_applicable":na,
 "notes":"See DESIGN.md. Known findings: /verif/known_findings.json. Property-to-obligation map: /verif/props.json."
}
json.dump(m,open('/verif/MANIFEST.json','w'),indent=1)
print("claimed:",sorted(claims['claimed'].keys()))
