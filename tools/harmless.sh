#!/bin/bash
# Must-pass corpus: behaviour-preserving edits of /repo (renamed locals, reordered independent
# statements, extra logging, changed messages, a loop-free helper extracted) kept under
# /verif/harmless/*.diff are applied to a scratch worktree and the listed checks must exit 0.
cd /verif
props="${@:-C03 C04 C10 C12 C15 C20}"
for d in harmless/*.diff; do
  wt=/tmp/hl_$$; git -C /repo worktree add -q --detach $wt HEAD || exit 2
  git -C $wt apply /verif/$d || { echo "$d: does not apply"; git -C /repo worktree remove --force $wt; continue; }
  for p in $props; do
    GOVC_SCRATCH=$wt/.govc ./bin/govc check -prop $p -tier quick -repo $wt > out/harmless_$p.txt 2>&1; rc=$?
    echo "$d $p: exit $rc $(grep -c '^VIOLATION' out/harmless_$p.txt) violations"
  done
  git -C /repo worktree remove --force $wt
done
