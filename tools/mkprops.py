#!/usr/bin/env python3
"""Writes /verif/props.json: which functions / post clauses / lemmas carry which property."""
import json
A='authz.'; H='authz.oidcHandler.'
P={}
P['C07']={
 "functions":["server.mustTriggerCheck","server.matchTriggerRule","server.stringMatch","http.GetPathQueryFragment"],
 "lemmas":["L-query-independent-q","L-query-independent-f","L-pathonly-clean","L-pathonly-idem"],
 "required":["server.mustTriggerCheck:post:spec","server.matchTriggerRule:post:spec","server.stringMatch:post:spec","http.GetPathQueryFragment:post:path","lemma.L-query-independent-q:lemma"],
 "panics":True,
 "note":"decision function == TriggerSpec(rules, PathOnly(target)) written from the statement; what Go's regexp matches is the opaque predicate RegexMatch"}
P['C01']={
 "posts":{
  H+"Process":["noerr","status","ok_justified","ok_body","deny_body","inv"],
  H+"redirectToIDP":["denied","inv"],
  H+"retrieveTokens":["denied","inv","count"],
  H+"refreshToken":["count","request","merged","validated","view","view_sid","clock"],
  H+"areRequiredTokensExpired":[],
  H+"isValidIDToken":["code_ok","valid"],
  A+"performIDPRequest":["count","sent","decoded","fail"],
  A+"setDenyResponse":[],
  H+"allowResponse":["ok"],
  A+"isValidIDPNewTokensResponse":[], A+"isValidIDPRefreshTokenResponse":[],
  A+"getSessionIDFromCookie":[], A+"matchesLogoutPath":[], A+"matchesCallbackPath":[],
  "server.ExtAuthZFilter.Check":["err_no_verdict","untriggered","unmatched","judged"],
  A+"mockHandler.Process":[], A+"NewMockHandler":[], A+"NewOIDCHandler":[], A+"loadWellKnownConfig":[],
  "oidc.redisStore.SetTokenResponse":["faults_reported"], "oidc.redisStore.GetTokenResponse":["faults_reported"],
  "oidc.redisStore.SetAuthorizationState":["faults_reported"], "oidc.redisStore.GetAuthorizationState":["faults_reported"],
  "oidc.redisStore.ClearAuthorizationState":["faults_reported"], "oidc.redisStore.RemoveSession":["faults_reported"],
 },
 "required":[H+"Process:post:ok_justified", "oidc.redisStore.GetTokenResponse:post:faults_reported", A+"NewOIDCHandler:post:handler", "server.ExtAuthZFilter.Check:post:judged", H+"retrieveTokens:post:denied", H+"redirectToIDP:post:denied", A+"setDenyResponse:cover"],
 "note":"OK verdict justified by the abstract session state (ghost View), for arbitrary store content and with every store / IdP / key-source call allowed to fail before or after taking effect; interleavings below call granularity are not decided"}
P['C02']={
 "posts":{
  H+"isValidIDToken":["valid","nonce_required","nonce_optional","code_ok"],
  H+"retrieveTokens":["bind","view","inv"],
  H+"refreshToken":["validated","merged","request","count"],
  H+"Process":["ok_justified","ok_forwards","inv"],
  H+"allowResponse":["ok","kept","only_tokens","id_forwarded","access_forwarded"],
  H+"encodeTokensToHeaders":[], A+"encodeHeaderValue":[],
  "oidc.ParseToken":[], "oidc.TokenResponse.ParseIDToken":[],
  A+"performIDPRequest":["decoded","sent","count"],
  "oidc.DefaultJWKSProvider.fetchStatic":[], "oidc.DefaultJWKSProvider.fetchDynamic":[],
 },
 "refines":["oidc.DefaultJWKSProvider.Get"],
 "required":["oidc.DefaultJWKSProvider.Get:refine:JWKSProvider.Get.keys", "oidc.DefaultJWKSProvider.fetchDynamic:post:fetched", H+"isValidIDToken:post:valid", H+"retrieveTokens:post:bind", H+"Process:post:ok_forwards", H+"allowResponse:post:only_tokens", "oidc.ParseToken:pre@call:jwt.Parse.opts"],
 "note":"that jws.Verify / jwt.Parse reject forged tokens is a trusted contract (T-jws-Verify, T-jwt-Parse); decided: every bind is dominated by a successful verification of exactly the stored string under a key set of the configured provider, audience and nonce checks on claims of the same string; options of jwt.Parse / jws.Verify are pinned by preconditions"}
P['C04']={
 "posts":{
  H+"retrieveTokens":["exchange_bound","exchange_request","consumed","count","view","bind"],
  H+"redirectToIDP":["location","login_state","redirect","view","new_sid"],
  "http.BasicAuthHeader":[],
  A+"performIDPRequest":["count","sent"],
  H+"Process":["ok_justified","logout"],
 },
 "required":[H+"retrieveTokens:post:exchange_bound", H+"retrieveTokens:post:exchange_request", H+"retrieveTokens:post:consumed", H+"redirectToIDP:post:location"],
 "note":"sequential (call-granularity) histories; two callbacks of the same session interleaved below call granularity are not decided; url.ParseQuery's treatment of odd keys is a trusted contract (compared and sent values are the same terms)"}
P['C05']={
 "posts":{
  H+"redirectToIDP":["old_sid","new_sid","no_gen","redirect","inv","view","error_shape"],
  H+"retrieveTokens":["inv","view"],
  H+"Process":["inv","logout","deny_content"],
  A+"getCookieName":[], A+"getCookieDirectives":[], A+"generateSetCookieHeader":[], "http.EncodeCookieHeader":[],
  A+"setSetCookieHeader":[], "http.DecodeCookiesHeader":[], A+"getSessionIDFromCookie":[],
 },
 "required":["http.DecodeCookiesHeader:post:decoded", H+"redirectToIDP:post:new_sid", H+"redirectToIDP:post:old_sid", A+"generateSetCookieHeader:post:cookie", A+"getCookieName:post:host_prefix"],
 "assumptions":["A-FRESH: a freshly drawn session id differs from the id the client presented (premise examined by C06)","A-COOKIE-TOKEN: the configured cookie-name prefix contains only RFC 6265 token characters (not checked by the loader)"],
 "note":"StoreInv (everything a store holds is held under an issued id) is preserved by every handler function"}
P['C09']={
 "posts":{ H+"Process":["logout","inv","ok_justified","noerr","status"], H+"redirectToIDP":["old_sid","no_gen","view"],
   H+"Process@intf":["ok_after_logout","no_resurrection","callback_others","inv","lo_issued"], H+"redirectToIDP@intf":[], H+"retrieveTokens@intf":[], H+"refreshToken@intf":[] },
 "variant":"intf",
 "refines":["oidc.memoryStore.RemoveSession","oidc.redisStore.RemoveSession"],
 "variant_functions":[H+"refreshToken",H+"redirectToIDP",H+"retrieveTokens",H+"Process"],
 "kinds":["post","pre@call","frame","cover","lemma","inv-init","inv-step","refine"],
 "lemmas":["L-absent-stable"],
 "required":[H+"Process:post:logout", "oidc.redisStore.RemoveSession:refine:SessionStore.RemoveSession.ok", "oidc.memoryStore.RemoveSession:refine:SessionStore.RemoveSession.ok", H+"Process@intf:post:ok_after_logout@ret1", H+"Process@intf:post:ok_after_logout@ret2", H+"Process@intf:post:no_resurrection@ret1", H+"Process@intf:post:no_resurrection@ret2", H+"redirectToIDP@intf:post:final", H+"refreshToken@intf:post:final", H+"retrieveTokens@intf:post:final_others"],
 "note":"sequential half: the logout answer, removal before answering, error instead of success when removal fails, and — by ok_justified — no OK for an absent session. In-flight half (contract variant intf): between any two store operations of a check, other requests may have answered logouts of any sessions (ghost LoggedOut; the store contracts are restated over the content each operation finds); Process and its helpers are verified never to answer OK for, nor to bring back, a session whose logout has been answered, except by completing a login for it. This holds on every path but the token-refresh path: known finding K1"}
P['C11']={
 "posts":{
  H+"refreshToken":["count","request","merged","validated","view","view_sid","clock"],
  H+"Process":["ok_justified","refresh_failure","ok_forwards","inv"],
  A+"isValidIDPRefreshTokenResponse":[],
  A+"performIDPRequest":["count","sent","decoded","fail"],
 },
 "required":[H+"refreshToken:post:merged", H+"refreshToken:post:request", H+"Process:post:refresh_failure"],
 "note":"provider behaviour itself is not decided; 'most recently issued refresh token' is the one stored in the session (RefreshForm is pinned to the stored token)"}
P['C13']={
 "posts":{
  H+"redirectToIDP":["location","redirect","login_state","deny_content"],
  H+"retrieveTokens":["redirect_back","deny_content"],
  H+"Process":["logout","deny_content"],
  A+"newDenyResponse":[], A+"setRedirect":[],
 },
 "sweep":["authz.init"],
 "required":[H+"redirectToIDP:post:location", H+"retrieveTokens:post:redirect_back", A+"newDenyResponse:post:nocache", "authz.init:post:pkginv.stdhdrs"],
 "note":"correctness of url.Values.Encode is the trusted contract T-url-Encode (decoding gives back keys and values); 'scope contains openid' rests on C17"}
P['C14']={
 "posts":{
  H+"Process":["deny_content","ok_forwards","deny_body","ok_body"],
  H+"redirectToIDP":["deny_content","error_shape"],
  H+"retrieveTokens":["deny_content"],
  H+"allowResponse":["kept","only_tokens"],
  A+"newDenyResponse":[], A+"newSessionErrorResponse":[], A+"setDenyResponse":[], A+"setRedirect":[], A+"setSetCookieHeader":[],
 },
 "required":[H+"Process:post:deny_content", H+"allowResponse:post:only_tokens"],
 "note":"explicit flows: every denial is shown equal to a term built from constants, the redirect URL (client id, callback, scopes, state, nonce, S256(verifier)), the stored requested URL and the session cookie — no term mentions the client secret, a verifier or a token; OK adds only the encoded ID / access token. Implicit flows (the fact that validation failed is visible in the status) and log output are not decided"}
P['C15']={
 "functions":[H+"Process",H+"redirectToIDP",H+"retrieveTokens",H+"refreshToken",H+"areRequiredTokensExpired",H+"isValidIDToken",H+"allowResponse",H+"encodeTokensToHeaders",
   A+"performIDPRequest",A+"setDenyResponse",A+"newDenyResponse",A+"newSessionErrorResponse",A+"setRedirect",A+"setSetCookieHeader",A+"encodeHeaderValue",A+"getCookieName",A+"getCookieDirectives",A+"generateSetCookieHeader",
   A+"isValidIDPNewTokensResponse",A+"isValidIDPRefreshTokenResponse",A+"getSessionIDFromCookie",A+"matchesLogoutPath",A+"matchesCallbackPath",A+"mockHandler.Process",A+"NewMockHandler",
   "server.ExtAuthZFilter.Check","server.mustTriggerCheck","server.matchTriggerRule","server.stringMatch","server.matches","http.GetPathQueryFragment","http.EncodeCookieHeader","http.BasicAuthHeader","http.DecodeCookiesHeader",
   "oidc.ParseToken","oidc.TokenResponse.ParseIDToken","internal.Logger"],
 "panics":True,
 "kinds":["panic","cover","pre@call","inv-init","inv-step","post"],
 "posts":{H+"Process":["noerr","status","ok_body","deny_body"], "server.ExtAuthZFilter.Check":["err_no_verdict"], A+"performIDPRequest":["ok_nonnil","fail","decoded"]},
 "required":[H+"isValidIDToken:panic:", H+"Process:panic:", A+"performIDPRequest:post:ok_nonnil"],
 "assumptions":["A-TERM: external calls terminate (the per-check http.Client has no timeout)"],
 "note":"every instruction that can panic in the functions on the check path is an obligation (nil dereference, type assertion, index, slice bounds, nil map write, nil interface / function call); what dependencies may return is fixed by deliberately weak trusted contracts; panics inside dependencies are not decided"}
P['C08']={
 "posts":{
  "server.ExtAuthZFilter.Check":["err_no_verdict","untriggered","unmatched","judged"],
  "server.matches":[], A+"mockHandler.Process":[], A+"NewMockHandler":[], "server.init$1":[],
  "server.mustTriggerCheck":["spec"],
 },
 "required":["server.ExtAuthZFilter.Check:post:judged","server.ExtAuthZFilter.Check:post:unmatched","server.matches:post:spec","server.init$1:post:denied"],
 "assumptions":["A-ENVOY-LOWER: Envoy sends lower-case header keys (the criterion header is looked up under its lower-cased name, as the code assumes)","ChainsResolved: every filter is a mock or an OIDC filter with a resolved configuration (established by configuration loading, C17)"],
 "note":"the ghost log of Handler.Process invocations states which filters ran, in which order, and that evaluation stopped at the first denial; handler construction (NewOIDCHandler) is an assumed contract"}
MS="oidc.memoryStore."
RS="oidc.redisStore."
METHS=["SetTokenResponse","GetTokenResponse","SetAuthorizationState","GetAuthorizationState","ClearAuthorizationState","RemoveSession"]
P['C12']={
 "refines":[MS+m for m in METHS]+[RS+m for m in METHS],
 "functions":["oidc.NewRedisStore","oidc.Clock.Now"]+[RS+m for m in METHS],
 "sweep":["oidc.init"],
 "lemmas":["L-onlysid-ext"],
 "required":[RS+"GetTokenResponse:refine:SessionStore.GetTokenResponse.got", RS+"GetAuthorizationState:refine:SessionStore.GetAuthorizationState.got", RS+"SetTokenResponse:refine:SessionStore.SetTokenResponse.ok", RS+"SetAuthorizationState:refine:SessionStore.SetAuthorizationState.ok", RS+"RemoveSession:refine:SessionStore.RemoveSession.ok", RS+"ClearAuthorizationState:refine:SessionStore.ClearAuthorizationState.ok", RS+"SetTokenResponse:refine:repinv.dbwf", RS+"SetTokenResponse:refine:SessionStore.SetTokenResponse.frame_pw", "oidc.init:post:pkginv.rediskeys", "oidc.NewRedisStore:post:fields", RS+"SetTokenResponse:post:faults_reported", RS+"GetTokenResponse:post:faults_reported", RS+"SetTokenResponse:post:only_this_key", RS+"RemoveSession:post:only_this_key",
 MS+"GetTokenResponse:refine:SessionStore.GetTokenResponse.got", MS+"SetTokenResponse:refine:SessionStore.SetTokenResponse.ok", MS+"RemoveSession:refine:SessionStore.RemoveSession.ok", MS+"ClearAuthorizationState:refine:SessionStore.ClearAuthorizationState.ok", MS+"SetTokenResponse:refine:repinv.distinct", MS+"GetTokenResponse:pre@call:sync.Mutex.Lock.not_held"],
 "note":"both stores: every method refines the abstract-map contract of SessionStore under the abstraction MemView, keeps the representation invariants, and acquires / releases the store mutex exactly once around its accesses"}
P['C10']={
 "posts":{H+"Process":["ok_not_timed_out","ok_justified"]},
 "functions":["oidc.Clock.Now"],
 "refines":[MS+m for m in METHS]+[RS+m for m in METHS],
 "lemmas":["L-onlysid-ext","L-timedout-monotone"],
 "required":[RS+"GetTokenResponse:refine:SessionStore.GetTokenResponse.timeout", RS+"GetAuthorizationState:refine:SessionStore.GetAuthorizationState.timeout", RS+"GetTokenResponse:refine:SessionStore.GetTokenResponse.kept_inside", RS+"GetTokenResponse:refine:SessionStore.GetTokenResponse.refreshed", RS+"SetTokenResponse:refine:repinv.dbwf", RS+"SetAuthorizationState:refine:repinv.dbwf", MS+"GetTokenResponse:refine:SessionStore.GetTokenResponse.refreshed", MS+"SetTokenResponse:refine:SessionStore.SetTokenResponse.refreshed",
 MS+"GetTokenResponse:refine:SessionStore.GetTokenResponse.timeout", MS+"GetAuthorizationState:refine:SessionStore.GetAuthorizationState.timeout", MS+"GetTokenResponse:refine:SessionStore.GetTokenResponse.kept_inside", H+"Process:post:ok_not_timed_out"],
 "note":"both stores at store level; the memory store's wiring through PreRun is C18"}
I="internal."
P['C17']={
 "quick_timeout_s":150,
 "functions":[I+"LocalConfigFile.Validate",I+"mergeAndValidateOIDCConfigs",I+"applyOIDCDefaults",I+"validateURLs",I+"validateOIDCConfigURLs",I+"validateURL",I+"hasRootPath",I+"isRootPath"],
 "sweep":["internal.init"],
 "panics":True,
 "required":[I+"LocalConfigFile.Validate:post:typed", I+"LocalConfigFile.Validate:post:resolved", I+"LocalConfigFile.Validate:post:openid", I+"mergeAndValidateOIDCConfigs:post:openid", I+"mergeAndValidateOIDCConfigs:post:logout_paths", I+"LocalConfigFile.Validate:post:logout_paths", I+"mergeAndValidateOIDCConfigs:post:no_override", I+"mergeAndValidateOIDCConfigs:pre@call:applyOIDCDefaults.config_nonnil", I+"applyOIDCDefaults:post:openid", I+"validateURLs:post:callbacks", I+"mergeAndValidateOIDCConfigs:panic:"],
 "note":"loading never panics (every instruction that can panic in Validate and its helpers, for any well-formed protojson tree); accepted implies every filter has a type, the openid scope is present, callback URIs parse and are not root; the generated ValidateAll and proto.Clone/Merge are trusted contracts"}
RG="oidc.randomGenerator."
P['C06']={
 "functions":[RG+"generate","oidc.NewRandomGenerator"],
 "refines":[RG+"GenerateSessionID",RG+"GenerateNonce",RG+"GenerateState",RG+"GenerateCodeVerifier"],
 "posts":{"server.ExtAuthZFilter.Check":["err_no_verdict"], H+"redirectToIDP":["fresh_values"]},
 "required":[H+"redirectToIDP:post:fresh_values", RG+"generate:post:crypto", RG+"GenerateSessionID:refine:SessionGenerator.GenerateSessionID.crypto", "server.ExtAuthZFilter.Check:pre@call:NewOIDCHandler.secure_generator", "oidc.NewRandomGenerator:post:secure"],
 "assumptions":["A-CRYPTO: the bytes of distinct crypto/rand.Read calls are unpredictable and independent of each other and of everything else","A-S256 / oauth2.GenerateVerifier: the PKCE verifier comes from crypto/rand inside golang.org/x/oauth2 (trusted)"],
 "note":"decided as a functional provenance contract: every session id / state / nonce is shown to be a fixed function (alphabet character selected by byte i modulo 62) of the bytes of ONE crypto/rand.Read made in that call, and of nothing else (not the time, not request data, not other identifiers); the only generator server.Check hands to the handler is the randomGenerator. The statistical quality of the draw (modulo bias 256 mod 62) is not decided"}
T="internal.tlsConfigPool."
P['C20']={
 "functions":[T+"LoadTLSConfig",T+"updateCA","internal.BoolStrValue","internal.encodeConfig","internal.tlsConfigEncoder.hash","internal.tlsConfigEncoder.JSON","http.NewHTTPClient","internal.caFileReader.ID","internal.FileReader.ID","internal.FileWatcher.WatchFile"],
 "refines":[T+"LoadTLSConfig","internal.FileReader.ID","internal.FileReader.Read"],
 "lemmas":["L-hashbuf-injective"],
 "required":[T+"LoadTLSConfig:post:own_watcher","internal.FileWatcher.WatchFile:post:others","internal.caFileReader.ID:post:key",T+"LoadTLSConfig:post:trust",T+"LoadTLSConfig:post:shared",T+"LoadTLSConfig:post:pool",T+"LoadTLSConfig:post:none",T+"updateCA:post:updated",T+"updateCA:post:only_id","internal.tlsConfigEncoder.hash:post:id","internal.encodeConfig:post:enc","internal.BoolStrValue:post:val","lemma.L-hashbuf-injective:lemma:L-hashbuf-injective", T+"LoadTLSConfig:refine:TLSConfigPool.LoadTLSConfig.trust", T+"LoadTLSConfig:refine:repinv.src", "http.NewHTTPClient:post:tls_trust", "http.NewHTTPClient:post:tls_none"],
 "note":"trust function of the TLS configuration pool: which roots / skip-verify a *tls.Config built or pooled for given settings expresses; pooling keyed by the hash of the settings; CA replacement by updateCA. File watching (goroutines, tickers, elapsed time) and TLS handshakes are not decided"}
P['C16']={
 "locks":True,
 "kinds":["guard","lockorder","lockbalance","pre@call","cover"],
 "refines":[MS+m for m in METHS]+[RS+m for m in METHS]+["oidc.sessionStoreFactory.Get", T+"LoadTLSConfig", "oidc.DefaultJWKSProvider.Get"],
 "functions":["oidc.memoryStore.RemoveAllExpired","oidc.GetWellKnownConfig","authz.loadWellKnownConfig",T+"LoadTLSConfig",T+"updateCA","k8s.SecretController.Reconcile","server.ExtAuthZFilter.Check",H+"Process",H+"redirectToIDP",H+"retrieveTokens",H+"refreshToken","http.NewHTTPClient","oidc.DefaultJWKSProvider.fetchStatic","oidc.NewRedisStore","oidc.NewMemoryStore","internal.FileWatcher.WatchFile"],
 "sweep":["internal.Logger"],
 "required":[MS+"GetTokenResponse:guard:internal_oidc_memoryStore.sessions.mapread", MS+"SetTokenResponse:guard:internal_oidc_memoryStore.sessions.mapwrite", MS+"RemoveSession:lockbalance:", MS+"GetTokenResponse:lockorder:acquire", T+"LoadTLSConfig:guard:internal_tlsConfigPool.configs.mapread", T+"LoadTLSConfig:guard:internal_tlsConfigPool.configs.mapwrite", T+"updateCA:guard:crypto_tls_Config.RootCAs.frozen-write", "k8s.SecretController.Reconcile:guard:config_gen_go_v1_oidc_OIDCConfig.ClientSecretConfig.frozen-write", "oidc.GetWellKnownConfig:guard:internal_oidc_wellKnownConfigs", "authz.loadWellKnownConfig:guard:config_gen_go_v1_oidc_OIDCConfig.TokenUri.frozen-write", H+"Process:lockbalance:", "internal.FileWatcher.WatchFile:lockbalance:", "internal.FileWatcher.WatchFile:guard:internal_FileWatcher.watchers.mapwrite"],
 "note":"lock discipline over a hand-written inventory of shared locations: guarded locations are touched only under their lock, frozen locations are never written once shared, locks are never nested and every function returns with the locks it was entered with"}
K="k8s.SecretController."
P['C19']={
 "functions":[K+"Reconcile",K+"loadSecrets","k8s.secretNamespacedName"],
 "panics":True,
 "quick_timeout_s":30,
 "required":[K+"Reconcile:post:applied",K+"Reconcile:post:others_untouched",K+"Reconcile:post:ignored",K+"loadSecrets:post:same_namespace",K+"loadSecrets:post:indexed",K+"Reconcile:post:err_only_from_get"],
 "note":"the token-endpoint requests read the secret at request time (C04/C11 request postconditions speak about cfg.GetClientSecret() at the call); delivery of Kubernetes events and the data race between Reconcile's write and readers (C16) are not decided; PreRun / ServeContext (controller-runtime wiring) are not under contract"}
P['C18']={
 "functions":["oidc.sessionStoreFactory.PreRun","oidc.NewMemoryStore"],
 "refines":["oidc.sessionStoreFactory.Get"],
 "posts":{A+"getCookieName":[], H+"Process":["ok_justified","ok_not_timed_out","deny_content"], H+"retrieveTokens":["exchange_request"], H+"refreshToken":["request"], H+"redirectToIDP":["location","redirect"],
   "server.ExtAuthZFilter.Check":["judged"], A+"NewOIDCHandler":["handler","client"],
   A+"loadWellKnownConfig":["discovered","undiscovered"], "oidc.GetWellKnownConfig":["discovered","cache_ok"]},
 "required":["oidc.GetWellKnownConfig:post:discovered", "oidc.GetWellKnownConfig:post:cache_ok", A+"loadWellKnownConfig:post:discovered", "server.ExtAuthZFilter.Check:inv-step:loop2.logged", A+"NewOIDCHandler:post:handler", "oidc.sessionStoreFactory.PreRun:post:timeouts_wired_single", "oidc.sessionStoreFactory.PreRun:post:timeouts_wired@", "oidc.sessionStoreFactory.PreRun:inv-step:loop2.wired2", "oidc.sessionStoreFactory.PreRun:inv-step:loop2.cur_wired","oidc.sessionStoreFactory.PreRun:post:exclusive","oidc.sessionStoreFactory.Get:refine:SessionStoreFactory.Get.which"],
 "note":"own endpoints / credentials / cookie prefix: every IdP request, redirect and cookie is pinned to the handler's own configuration by the C04/C11/C13/C05 postconditions; which store (with which timeouts) a filter gets is PreRun's postcondition — it holds for configurations with a single OIDC filter and fails otherwise (known finding K3)"}
P['C03']={
 "posts":{
  H+"retrieveTokens":["login_expiry","redirect_back","bind","consumed","count","view"],
  H+"redirectToIDP":["redirect","login_state","location","new_sid"],
  H+"Process":["ok_justified","ok_forwards","noerr","status"],
  H+"areRequiredTokensExpired":[], "http.DecodeCookiesHeader":[], A+"getSessionIDFromCookie":[],
  H+"Process@live":[], H+"retrieveTokens@live":[], H+"redirectToIDP@live":[], H+"isValidIDToken@live":[], A+"performIDPRequest@live":[], H+"areRequiredTokensExpired@live":[],
 },
 "variant":"live",
 "variant_functions":[A+"performIDPRequest",H+"isValidIDToken",H+"areRequiredTokensExpired",H+"redirectToIDP",H+"retrieveTokens",H+"Process"],
 "kinds":["post","pre@call","frame","cover","lemma","inv-init","inv-step"],
 "lemmas":["L-login-reaches-callback","L-callback-reaches-service"],
 "required":[H+"retrieveTokens:post:login_expiry", H+"retrieveTokens:post:redirect_back", H+"Process@live:post:login", H+"Process@live:post:callback", H+"Process@live:post:served", H+"Process@live:post:served_tokens", H+"Process@live:cover:cover_login", H+"Process@live:cover:cover_callback", H+"Process@live:cover:cover_served", H+"retrieveTokens@live:post:login_completes", H+"isValidIDToken@live:post:live", A+"performIDPRequest@live:post:live", "lemma.L-login-reaches-callback:lemma", "lemma.L-callback-reaches-service:lemma"],
 "note":"progress of a login in a fault-free run against a compliant provider (contract variant live): the three steps as success-direction postconditions of Process, chained by two lemmas for a browser that follows the redirects; plus the safety-direction postconditions of each step"}
# C15 owns panic freedom: of its functions only the listed posts (well-formed verdict) are included
for f in P['C15']['functions']:
    P['C15']['posts'].setdefault(f, ["<none>"])
json.dump(P,open('/verif/props.json','w'),indent=1)
print(sorted(P))
