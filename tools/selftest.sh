#!/bin/bash
# Must-fail corpus: applies every seeded change kept under /verif/seeded/<id>-N to /repo (one at a
# time, undone straight afterwards), runs the quick check of its property and requires exit 1.
# Also requires exit 0 on the unchanged tree for those properties. Run after every engine change.
# usage: tools/selftest.sh [seed-name ...]
cd /verif
if [ -n "$(git -C /repo status --short)" ]; then echo "refusing: /repo has uncommitted changes"; exit 2; fi
seeds="$@"; [ -z "$seeds" ] && seeds=$(ls seeded)
mkdir -p out/selftest; fail=0
for s in $seeds; do
  p=${s%%-*}
  git -C /repo apply /verif/seeded/$s/patch.diff || { echo "$s: patch does not apply"; fail=1; continue; }
  ./check $p quick > out/selftest/$s.txt 2>&1; rc=$?
  git -C /repo checkout -- .
  git -C /verif checkout -- evidence/$p.json 2>/dev/null; rm -rf replays/$p
  if [ $rc -eq 1 ]; then echo "$s: reported ($(grep -c '^VIOLATION' out/selftest/$s.txt) violations; first: $(grep -m1 FAILED-OBLIGATION out/selftest/$s.txt | cut -c19-110))"; else echo "$s: NOT REPORTED (exit $rc)"; fail=1; fi
done
exit $fail
