#!/bin/bash
# Must-fail corpus: for every seeded change kept under /verif/seeded/<id>-N, a scratch worktree of
# /repo's HEAD (outside /repo and /verif, removed afterwards) gets the change applied and the quick
# check of its property is run against that copy (govc check -repo <copy>, output under a scratch
# directory); exit 1 is required. Four at a time. /repo itself is not touched. GOVC_NORETRY skips the
# sequential retry of slow obligations (a time-out counts as reported here anyway).
# usage: tools/selftest.sh [seed-name ...]
cd /verif
seeds="$@"; [ -z "$seeds" ] && seeds=$(ls seeded)
mkdir -p out/selftest
one() {
  s=$1; p=${s%%-*}; wt=/tmp/st_$s
  git -C /repo worktree remove --force $wt 2>/dev/null; rm -rf $wt
  git -C /repo worktree add -q --detach $wt HEAD || { echo "$s: cannot create worktree"; return; }
  if ! git -C $wt apply /verif/seeded/$s/patch.diff; then echo "$s: patch does not apply"; git -C /repo worktree remove --force $wt; return; fi
  GOVC_NORETRY=1 GOVC_SCRATCH=$wt/.govc /verif/bin/govc check -prop $p -tier quick -repo $wt > out/selftest/$s.txt 2>&1; rc=$?
  git -C /repo worktree remove --force $wt 2>/dev/null; rm -rf $wt
  if grep -q '"check_result": "missed"' /verif/seeded/$s/meta.json; then echo "$s: exit $rc (recorded as missed / not claimed: $( [ $rc -eq 0 ] && echo still unreported || echo NOW REPORTED ))"; return; fi
  if [ $rc -eq 1 ]; then echo "$s: reported ($(grep -c '^VIOLATION' out/selftest/$s.txt) violations; first: $(grep -m1 FAILED-OBLIGATION out/selftest/$s.txt | cut -c19-120))"; else echo "$s: NOT REPORTED (exit $rc)"; fi
}
export -f one
printf '%s\n' $seeds | xargs -P 4 -I{} bash -c 'one {}'
git -C /repo worktree prune
