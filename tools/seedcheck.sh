#!/bin/bash
# usage: tools/seedcheck.sh <seed-name> <property ids to run...>
# Confirms a seeded change (/verif/seeded/<seed-name>/patch.diff + demo_test.go) in a scratch worktree:
#  - with the change: builds, existing tests of the touched packages pass, the demo fails
#  - without the change: the demo passes
# then applies it to /repo, runs the given property checks and undoes it.
set -u
export GOFLAGS=-mod=mod GOPROXY=off
name=$1; shift
sd=/verif/seeded/$name
wt=/tmp/conf_$name
git -C /repo worktree remove --force $wt 2>/dev/null
git -C /repo worktree add -q --detach $wt HEAD || exit 2
demo_path=$(grep -m1 -o 'internal/[A-Za-z0-9_/]*_test\.go' $sd/demo_test.go | head -1)
[ -z "$demo_path" ] && demo_path=internal/authz/zz_seed_demo_test.go
pkg=./$(dirname $demo_path)
echo "== demo goes to $demo_path (package $pkg)"
cp $sd/demo_test.go $wt/$demo_path
( cd $wt && go test -vet=off -count=1 -run 'Seed|seed|Demo' $pkg 2>&1 | tail -3 ) > $sd/confirm_without_change.txt
echo "-- demo WITHOUT change:"; tail -2 $sd/confirm_without_change.txt
( cd $wt && git apply $sd/patch.diff ) || { echo "patch does not apply"; exit 2; }
( cd $wt && go build ./... 2>&1 | tail -3 )
( cd $wt && go test -vet=off -count=1 -run 'Seed|seed|Demo' $pkg 2>&1 | tail -5 ) > $sd/confirm_with_change.txt
echo "-- demo WITH change:"; tail -3 $sd/confirm_with_change.txt
rm $wt/$demo_path
( cd $wt && go test -vet=off -count=1 ./internal/... ./cmd/... 2>&1 | grep -v "no test files" | tail -12 ) > $sd/suite_with_change.txt
echo "-- existing suite WITH change:"; cat $sd/suite_with_change.txt
# run the checks against the change: in the scratch worktree (SEEDCHECK_INPLACE unset; /repo is not
# touched, several seeds can be checked at once), or — SEEDCHECK_INPLACE=1 — by applying it to /repo
# itself and undoing it straight afterwards
if [ -z "${SEEDCHECK_INPLACE:-}" ]; then
  ( cd $wt && git checkout -q -- . && git apply $sd/patch.diff ) || exit 2
  for p in "$@"; do
    GOVC_SCRATCH=$wt/.govc /verif/bin/govc check -prop $p -tier quick -repo $wt > $sd/check_$p.txt 2>&1; echo "exit=$?" >> $sd/check_$p.txt
    rm -rf $sd/replays_$p; [ -d $wt/.govc/replays/$p ] && cp -r $wt/.govc/replays/$p $sd/replays_$p
    echo "-- check $p:"; grep -E "VIOLATION|FAILED-OBLIGATION|ENGINE|property=|exit=" $sd/check_$p.txt | cut -c1-260 | tail -8
  done
  git -C /repo worktree remove --force $wt
  exit 0
fi
git -C /repo worktree remove --force $wt
if [ -n "$(git -C /repo status --short)" ]; then echo "refusing: /repo has uncommitted changes (they would be lost by the final checkout)"; exit 2; fi
git -C /repo apply $sd/patch.diff || exit 2
for p in "$@"; do
  ( cd /verif && ./check $p quick > $sd/check_$p.txt 2>&1; echo "exit=$?" >> $sd/check_$p.txt )
  rm -rf $sd/replays_$p; [ -d /verif/replays/$p ] && mv /verif/replays/$p $sd/replays_$p
  git -C /verif checkout -- evidence/$p.json 2>/dev/null
  echo "-- check $p:"; grep -E "VIOLATION|FAILED-OBLIGATION|ENGINE|property=|exit=" $sd/check_$p.txt | cut -c1-260 | tail -8
done
git -C /repo checkout -- .
git -C /repo status --short | head -3
