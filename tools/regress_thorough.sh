#!/bin/bash
# runs every claimed check (thorough) on the current /repo tree, 2 at a time; results in out/thorough/
cd /verif
ids=$(python3 -c "import json;print(' '.join(c['property_id'] for c in json.load(open('MANIFEST.json'))['checks']))")
[ -n "$1" ] && ids="$@"
mkdir -p out/thorough
printf '%s\n' $ids | xargs -P 2 -I{} sh -c './check {} thorough > out/thorough/{}.txt 2>&1; echo "exit=$?" >> out/thorough/{}.txt'
for i in $ids; do echo "$i: $(grep -E '^property=' out/thorough/$i.txt | tail -1) $(tail -1 out/thorough/$i.txt) $(grep -c VIOLATION out/thorough/$i.txt) violations"; done
