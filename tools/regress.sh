#!/bin/bash
# runs every claimed check (quick) on the current /repo tree, 3 at a time; prints one line per property
cd /verif
ids=$(python3 -c "import json;print(' '.join(c['property_id'] for c in json.load(open('MANIFEST.json'))['checks']))")
[ -n "$1" ] && ids="$@"
mkdir -p out/regress
printf '%s\n' $ids | xargs -P 3 -I{} sh -c './check {} quick > out/regress/{}.txt 2>&1; echo "exit=$?" >> out/regress/{}.txt'
for i in $ids; do echo "$i: $(grep -E '^property=' out/regress/$i.txt | tail -1) $(tail -1 out/regress/$i.txt) $(grep -c VIOLATION out/regress/$i.txt) violations"; done
