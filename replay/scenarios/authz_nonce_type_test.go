package authz

import (
	"context"
	"fmt"
	"testing"

	"github.com/lestrrat-go/jwx/v2/jwk"
	"github.com/lestrrat-go/jwx/v2/jwt"
	"github.com/tetratelabs/telemetry"

	oidcv1 "github.com/istio-ecosystem/authservice/config/gen/go/v1/oidc"
)

// Scenario for obligation isValidIDToken:panic:typeassert(string): a signed ID token whose
// "nonce" claim is a JSON number.
func TestGovcScenarioNonceType(t *testing.T) {
	priv, pub := newKeyPair(t)
	tok := newJWT(t, priv, jwt.NewBuilder().Audience([]string{"client"}).Claim("nonce", 12345))
	o := &oidcHandler{
		log:    telemetry.NoopLogger(),
		config: &oidcv1.OIDCConfig{ClientId: "client"},
		jwks:   jwksProviderFunc(func() (jwk.Set, error) { return newKeySet(t, pub), nil }),
	}
	defer func() {
		if r := recover(); r != nil {
			fmt.Println("GOVC-SCENARIO confirmed: isValidIDToken panicked:", r)
		}
	}()
	ok, code := o.isValidIDToken(context.Background(), o.log, tok, "expected", true)
	fmt.Println("GOVC-SCENARIO not-reproduced: returned", ok, code)
}
