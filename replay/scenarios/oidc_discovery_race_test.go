package oidc

// govc:race

import (
	"fmt"
	"net/http"
	"net/http/httptest"
	"sync"
	"testing"
)

// Scenario for obligation oidc.GetWellKnownConfig:guard:internal_oidc_wellKnownConfigs.*: the
// process-wide discovery cache is a plain map read and written by every check that builds a handler
// for a filter with a configuration URI. Several goroutines resolve distinct issuers at once, as
// concurrent checks do; run under the race detector.
func TestGovcScenarioDiscoveryCacheRace(t *testing.T) {
	srv := httptest.NewServer(http.HandlerFunc(func(w http.ResponseWriter, r *http.Request) {
		fmt.Fprint(w, `{"issuer":"x","authorization_endpoint":"http://idp/auth","token_endpoint":"http://idp/token","jwks_uri":"http://idp/jwks"}`)
	}))
	defer srv.Close()
	var wg sync.WaitGroup
	for i := 0; i < 8; i++ {
		wg.Add(1)
		go func(i int) {
			defer wg.Done()
			for j := 0; j < 20; j++ {
				_, _ = GetWellKnownConfig(srv.Client(), fmt.Sprintf("%s/%d/%d", srv.URL, i, j))
			}
		}(i)
	}
	wg.Wait()
	fmt.Println("GOVC-SCENARIO not-reproduced: no race reported (this line is only meaningful if the race detector stayed silent)")
}
