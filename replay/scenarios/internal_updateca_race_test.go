package internal

// govc:race

import (
	"context"
	"fmt"
	"sync"
	"testing"

	oidcv1 "github.com/istio-ecosystem/authservice/config/gen/go/v1/oidc"
)

// Scenario for obligation internal.tlsConfigPool.updateCA:guard:crypto_tls_Config.RootCAs.frozen-write:
// updateCA replaces RootCAs of the pooled *tls.Config that HTTP transports read during every
// handshake. One goroutine applies CA updates, one reads the field as crypto/tls does; run under
// the race detector.
func TestGovcScenarioUpdateCARace(t *testing.T) {
	ca1, _ := genCAAndCert(t, "first.example.com")
	ca2, _ := genCAAndCert(t, "second.example.com")
	ctx, cancel := context.WithCancel(context.Background())
	defer cancel()
	pool := NewTLSConfigPool(ctx).(*tlsConfigPool)
	cfg := &oidcv1.OIDCConfig{TrustedCaConfig: &oidcv1.OIDCConfig_TrustedCertificateAuthority{TrustedCertificateAuthority: string(ca1)}}
	tlsCfg, err := pool.LoadTLSConfig(cfg)
	if err != nil {
		t.Fatal(err)
	}
	id := encodeConfig(cfg).hash()
	var wg sync.WaitGroup
	wg.Add(2)
	go func() {
		defer wg.Done()
		for i := 0; i < 20; i++ {
			pool.updateCA(id, ca2)
		}
	}()
	go func() {
		defer wg.Done()
		n := 0
		for i := 0; i < 2000; i++ {
			if tlsCfg.RootCAs != nil { // read by crypto/tls in every client handshake
				n++
			}
		}
		_ = n
	}()
	wg.Wait()
	fmt.Println("GOVC-SCENARIO not-reproduced: no race reported (only meaningful if the race detector stayed silent)")
}
