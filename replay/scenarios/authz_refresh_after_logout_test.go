package authz

import (
	"context"
	"fmt"
	"net/http"
	"net/http/httptest"
	"testing"
	"time"

	corev3 "github.com/envoyproxy/go-control-plane/envoy/config/core/v3"
	envoy "github.com/envoyproxy/go-control-plane/envoy/service/auth/v3"
	"github.com/lestrrat-go/jwx/v2/jwk"
	"github.com/lestrrat-go/jwx/v2/jwt"
	"github.com/tetratelabs/telemetry"
	"google.golang.org/grpc/codes"

	oidcv1 "github.com/istio-ecosystem/authservice/config/gen/go/v1/oidc"
	"github.com/istio-ecosystem/authservice/internal/oidc"
)

// Scenario for obligations authz.oidcHandler.Process@intf:post:no_resurrection / ok_after_logout
// (refresh path): a check whose token refresh is in flight, a logout of the same session answered
// meanwhile, then the refresh completes. Real handler, real memory store, a token endpoint that
// blocks until the logout has been answered.
func TestGovcScenarioRefreshAfterLogout(t *testing.T) {
	priv, pub := newKeyPair(t)
	expired := newJWT(t, priv, jwt.NewBuilder().Audience([]string{"client"}).Expiration(time.Now().Add(-time.Hour)))
	fresh := newJWT(t, priv, jwt.NewBuilder().Audience([]string{"client"}).Expiration(time.Now().Add(time.Hour)))
	entered := make(chan struct{})
	release := make(chan struct{})
	srv := httptest.NewServer(http.HandlerFunc(func(w http.ResponseWriter, _ *http.Request) {
		close(entered)
		<-release // the provider answers only after the logout has been answered
		w.WriteHeader(http.StatusOK)
		_, _ = fmt.Fprintf(w, `{"id_token":%q,"access_token":"at2","refresh_token":"rt2","token_type":"Bearer","expires_in":3600}`, fresh)
	}))
	defer srv.Close()
	clock := oidc.Clock{}
	store := oidc.NewMemoryStore(&clock, 0, 0)
	cfg := &oidcv1.OIDCConfig{TokenUri: srv.URL, ClientId: "client", CallbackUri: "https://app/callback",
		IdToken: &oidcv1.TokenConfig{Header: "authorization", Preamble: "Bearer"},
		Logout:  &oidcv1.LogoutConfig{Path: "/logout", RedirectUri: "https://idp/logout"}}
	o := &oidcHandler{
		log:        telemetry.NoopLogger(),
		config:     cfg,
		sessions:   &mockSessionStoreFactory{store: store},
		sessionGen: oidc.NewRandomGenerator(),
		jwks:       jwksProviderFunc(func() (jwk.Set, error) { return newKeySet(t, pub), nil }),
		clock:      clock,
		httpClient: srv.Client(),
	}
	ctx := context.Background()
	_ = store.SetTokenResponse(ctx, "sid", &oidc.TokenResponse{IDToken: expired, AccessToken: "at1", RefreshToken: "rt1"})
	mkReq := func(path string) *envoy.CheckRequest {
		return &envoy.CheckRequest{Attributes: &envoy.AttributeContext{Request: &envoy.AttributeContext_Request{Http: &envoy.AttributeContext_HttpRequest{
			Scheme: "https", Host: "app", Path: path, Headers: map[string]string{"cookie": getCookieName(cfg) + "=sid"}}}}}
	}
	code := func(r *envoy.CheckResponse) codes.Code { return codes.Code(r.GetStatus().GetCode()) }
	_ = corev3.HeaderValueOption{}

	inflight := &envoy.CheckResponse{}
	done := make(chan struct{})
	go func() { // check 1: expired tokens, refresh in flight
		_ = o.Process(ctx, mkReq("/app"), inflight)
		close(done)
	}()
	<-entered
	logout := &envoy.CheckResponse{}
	_ = o.Process(ctx, mkReq("/logout"), logout) // the logout is answered while the refresh is in flight
	tr, _ := store.GetTokenResponse(ctx, "sid")
	loggedOut := tr == nil && code(logout) != codes.OK
	close(release)
	<-done
	after := &envoy.CheckResponse{}
	_ = o.Process(ctx, mkReq("/app"), after) // a later request with the logged-out cookie
	tr2, _ := store.GetTokenResponse(ctx, "sid")
	if loggedOut && (code(inflight) == codes.OK || code(after) == codes.OK || tr2 != nil) {
		fmt.Println("GOVC-SCENARIO confirmed: logout answered (session removed), then the in-flight check was answered", code(inflight), ", the session exists again:", tr2 != nil, ", and a later request with the logged-out cookie was answered", code(after))
		return
	}
	fmt.Println("GOVC-SCENARIO not-reproduced: logged out:", loggedOut, "in-flight:", code(inflight), "later:", code(after), "session present:", tr2 != nil)
}
