package authz

import (
	"context"
	"fmt"
	"net/http"
	"net/http/httptest"
	"testing"

	envoy "github.com/envoyproxy/go-control-plane/envoy/service/auth/v3"
	"github.com/lestrrat-go/jwx/v2/jwk"
	"github.com/lestrrat-go/jwx/v2/jwt"
	"github.com/tetratelabs/telemetry"

	oidcv1 "github.com/istio-ecosystem/authservice/config/gen/go/v1/oidc"
	"github.com/istio-ecosystem/authservice/internal/oidc"
)

// Scenario for obligation retrieveTokens:post:login_expiry: a compliant token answer without
// expires_in. "Zero means unknown": the recorded access-token expiry must stay the zero time.
func TestGovcScenarioLoginExpiry(t *testing.T) {
	priv, pub := newKeyPair(t)
	tok := newJWT(t, priv, jwt.NewBuilder().Audience([]string{"client"}).Claim("nonce", "nonce"))
	srv := httptest.NewServer(http.HandlerFunc(func(w http.ResponseWriter, _ *http.Request) {
		w.WriteHeader(http.StatusOK)
		_, _ = fmt.Fprintf(w, `{"id_token":%q,"access_token":"at","token_type":"Bearer"}`, tok)
	}))
	defer srv.Close()
	clock := oidc.Clock{}
	store := oidc.NewMemoryStore(&clock, 0, 0)
	cfg := &oidcv1.OIDCConfig{TokenUri: srv.URL, ClientId: "client", CallbackUri: "https://app/callback",
		AccessToken: &oidcv1.TokenConfig{Header: "x-access"}, IdToken: &oidcv1.TokenConfig{Header: "authorization"}}
	o := &oidcHandler{
		log:        telemetry.NoopLogger(),
		config:     cfg,
		sessions:   &mockSessionStoreFactory{store: store},
		jwks:       jwksProviderFunc(func() (jwk.Set, error) { return newKeySet(t, pub), nil }),
		clock:      clock,
		httpClient: srv.Client(),
	}
	ctx := context.Background()
	_ = store.SetAuthorizationState(ctx, "sid", &oidc.AuthorizationState{State: "state", Nonce: "nonce", RequestedURL: "https://app/x", CodeVerifier: "v"})
	req := &envoy.CheckRequest{Attributes: &envoy.AttributeContext{Request: &envoy.AttributeContext_Request{Http: &envoy.AttributeContext_HttpRequest{
		Host: "app", Path: "/callback?code=c&state=state"}}}}
	resp := &envoy.CheckResponse{}
	o.retrieveTokens(ctx, o.log, req, resp, "sid")
	tr, _ := store.GetTokenResponse(ctx, "sid")
	if tr == nil {
		fmt.Println("GOVC-SCENARIO not-reproduced: no tokens stored", resp)
		return
	}
	if !tr.AccessTokenExpiresAt.IsZero() {
		fmt.Println("GOVC-SCENARIO confirmed: expires_in absent but access-token expiry recorded as", tr.AccessTokenExpiresAt, "(already in the past: the session counts as expired at once when access-token forwarding is configured)")
		return
	}
	fmt.Println("GOVC-SCENARIO not-reproduced: expiry left zero")
}
