package internal

import (
	"context"
	"crypto/x509"
	"encoding/pem"
	"fmt"
	"os"
	"testing"
	"time"

	"google.golang.org/protobuf/types/known/durationpb"

	oidcv1 "github.com/istio-ecosystem/authservice/config/gen/go/v1/oidc"
)

// Scenario for obligation lemma.L-hashbuf-injective (the bytes a pooled TLS configuration's id is the
// hash of determine the settings): two OIDC filters with DIFFERENT CA files — <dir>/ca refreshed every
// 10s and <dir>/ca1 never refreshed — are loaded through the real pool. "…/ca"+"10s" and "…/ca1"+"0s"
// are the same bytes, so the second filter is handed the first filter's *tls.Config and does not trust
// its own CA.
func TestGovcScenarioTLSIdCollision(t *testing.T) {
	dir := t.TempDir()
	ca1Pem, _ := genCAAndCert(t, "first.example.com")
	ca2Pem, cert2Pem := genCAAndCert(t, "second.example.com")
	fileA, fileB := dir+"/ca", dir+"/ca1"
	if err := os.WriteFile(fileA, ca1Pem, 0644); err != nil {
		t.Fatal(err)
	}
	if err := os.WriteFile(fileB, ca2Pem, 0644); err != nil {
		t.Fatal(err)
	}
	cfgA := &oidcv1.OIDCConfig{
		TrustedCaConfig: &oidcv1.OIDCConfig_TrustedCertificateAuthorityFile{TrustedCertificateAuthorityFile: fileA},
		TrustedCertificateAuthorityRefreshInterval: durationpb.New(10 * time.Second),
	}
	cfgB := &oidcv1.OIDCConfig{
		TrustedCaConfig: &oidcv1.OIDCConfig_TrustedCertificateAuthorityFile{TrustedCertificateAuthorityFile: fileB},
	}
	idA, idB := encodeConfig(cfgA).hash(), encodeConfig(cfgB).hash()

	ctx, cancel := context.WithCancel(context.Background())
	defer cancel()
	pool := NewTLSConfigPool(ctx)
	tlsA, errA := pool.LoadTLSConfig(cfgA)
	tlsB, errB := pool.LoadTLSConfig(cfgB)
	if errA != nil || errB != nil {
		t.Fatal(errA, errB)
	}
	block, _ := pem.Decode(cert2Pem)
	cert2, err := x509.ParseCertificate(block.Bytes)
	if err != nil {
		t.Fatal(err)
	}
	_, verr := cert2.Verify(x509.VerifyOptions{Roots: tlsB.RootCAs, DNSName: "second.example.com"})
	if idA == idB && tlsA == tlsB && verr != nil {
		fmt.Println("GOVC-SCENARIO confirmed: distinct TLS settings (CA file", fileA, "every 10s /", fileB, "never) share pool id", idA, "and one *tls.Config; a server certificate issued by the second filter's CA is rejected with its own configuration:", verr)
		return
	}
	fmt.Println("GOVC-SCENARIO not-reproduced: ids", idA, idB, "same config:", tlsA == tlsB, "verify:", verr)
}
