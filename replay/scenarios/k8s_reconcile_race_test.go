package k8s

// govc:race

import (
	"context"
	"fmt"
	"sync"
	"testing"

	"k8s.io/apimachinery/pkg/types"
	ctrl "sigs.k8s.io/controller-runtime"
	"sigs.k8s.io/controller-runtime/pkg/client/fake"
)

// Scenario for obligation k8s.SecretController.Reconcile:guard:…OIDCConfig.ClientSecretConfig.frozen-write:
// the secret controller stores a rotated client secret into the OIDCConfig message that concurrent
// checks read (GetClientSecret, for the token-endpoint credentials). One goroutine reconciles, one
// reads, as a check does; run under the race detector.
func TestGovcScenarioReconcileRace(t *testing.T) {
	conf := loadTestConf(t, "testdata/oidc-with-multiple-secret-refs-in.json")
	secrets := secretsForTest()
	controller := NewSecretController(conf)
	controller.namespace = "default"
	controller.k8sClient = fake.NewClientBuilder().WithLists(secrets).Build()
	if err := controller.loadSecrets(); err != nil {
		t.Fatal(err)
	}
	var wg sync.WaitGroup
	wg.Add(2)
	go func() {
		defer wg.Done()
		for i := 0; i < 50; i++ {
			for _, s := range secrets.Items {
				_, _ = controller.Reconcile(context.Background(), ctrl.Request{NamespacedName: types.NamespacedName{Namespace: s.Namespace, Name: s.Name}})
			}
		}
	}()
	go func() {
		defer wg.Done()
		n := 0
		for i := 0; i < 500; i++ {
			for _, c := range conf.Chains {
				for _, f := range c.Filters {
					n += len(f.GetOidc().GetClientSecret()) // what every check reads
				}
			}
		}
		_ = n
	}()
	wg.Wait()
	fmt.Println("GOVC-SCENARIO not-reproduced: no race reported (only meaningful if the race detector stayed silent)")
}
