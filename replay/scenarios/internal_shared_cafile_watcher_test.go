package internal

import (
	"context"
	"crypto/x509"
	"encoding/pem"
	"fmt"
	"os"
	"path/filepath"
	"testing"
	"time"

	"google.golang.org/protobuf/types/known/durationpb"

	oidcv1 "github.com/istio-ecosystem/authservice/config/gen/go/v1/oidc"
)

// Scenario for obligation internal.tlsConfigPool.LoadTLSConfig:post:own_watcher:
// two TLS settings name the same CA file with different refresh intervals, so the pool holds two
// configurations. The file watcher keeps one watcher per key; if the key is the file path, loading
// the second setting stops the watcher that serves the first, and the first configuration never
// learns about a rotated CA.
func TestGovcScenarioSharedCAFileWatcher(t *testing.T) {
	ca1, _ := genCAAndCert(t, "first.example.com")
	ca2, leaf2 := genCAAndCert(t, "second.example.com")
	file := filepath.Join(t.TempDir(), "ca.pem")
	if err := os.WriteFile(file, ca1, 0o600); err != nil {
		t.Fatal(err)
	}
	ctx, cancel := context.WithCancel(context.Background())
	defer cancel()
	pool := NewTLSConfigPool(ctx)
	mk := func(d time.Duration) *oidcv1.OIDCConfig {
		return &oidcv1.OIDCConfig{
			TrustedCaConfig:                            &oidcv1.OIDCConfig_TrustedCertificateAuthorityFile{TrustedCertificateAuthorityFile: file},
			TrustedCertificateAuthorityRefreshInterval: durationpb.New(d),
		}
	}
	a, err := pool.LoadTLSConfig(mk(40 * time.Millisecond))
	if err != nil {
		t.Fatal(err)
	}
	b, err := pool.LoadTLSConfig(mk(60 * time.Millisecond))
	if err != nil {
		t.Fatal(err)
	}
	if a == b {
		t.Fatal("expected two pooled configurations")
	}
	if err := os.WriteFile(file, ca2, 0o600); err != nil {
		t.Fatal(err)
	}
	block, _ := pem.Decode(leaf2)
	cert2, err := x509.ParseCertificate(block.Bytes)
	if err != nil {
		t.Fatal(err)
	}
	// judged as a handshake would: does a certificate issued by the new CA verify against the roots
	trusts := func(roots *x509.CertPool) bool {
		_, err := cert2.Verify(x509.VerifyOptions{Roots: roots, DNSName: "second.example.com"})
		return err == nil
	}
	deadline := time.Now().Add(3 * time.Second)
	for time.Now().Before(deadline) {
		if trusts(a.RootCAs) && trusts(b.RootCAs) {
			fmt.Println("GOVC-SCENARIO not-reproduced: both configurations trust the rotated CA")
			return
		}
		time.Sleep(50 * time.Millisecond)
	}
	fmt.Printf("GOVC-SCENARIO confirmed: 3s after the CA file was rewritten (intervals 40ms / 60ms) first configuration trusts new CA: %v, second: %v\n", trusts(a.RootCAs), trusts(b.RootCAs))
}
