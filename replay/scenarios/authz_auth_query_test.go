package authz

import (
	"context"
	"fmt"
	"strings"
	"testing"

	envoy "github.com/envoyproxy/go-control-plane/envoy/service/auth/v3"
	"github.com/tetratelabs/telemetry"

	oidcv1 "github.com/istio-ecosystem/authservice/config/gen/go/v1/oidc"
	inthttp "github.com/istio-ecosystem/authservice/internal/http"
	"github.com/istio-ecosystem/authservice/internal/oidc"
)

// Scenario for obligation redirectToIDP:post:location: the configured authorization endpoint has
// a query of its own; the parameters must be appended with '&' and the endpoint's query retained.
func TestGovcScenarioAuthQuery(t *testing.T) {
	cfg := &oidcv1.OIDCConfig{AuthorizationUri: "http://idp/auth?tenant=x", ClientId: "client", CallbackUri: "https://app/callback", Scopes: []string{"openid"}}
	o := &oidcHandler{
		log:        telemetry.NoopLogger(),
		config:     cfg,
		sessions:   &mockSessionStoreFactory{store: oidc.NewMemoryStore(&oidc.Clock{}, 0, 0)},
		sessionGen: oidc.NewStaticGenerator("sid", "nonce", "state", "verifier"),
	}
	resp := &envoy.CheckResponse{}
	o.redirectToIDP(context.Background(), o.log, resp, &envoy.AttributeContext_HttpRequest{Scheme: "https", Host: "app", Path: "/x"}, "")
	loc := ""
	for _, h := range resp.GetDeniedResponse().GetHeaders() {
		if h.GetHeader().GetKey() == inthttp.HeaderLocation {
			loc = h.GetHeader().GetValue()
		}
	}
	if !strings.HasPrefix(loc, cfg.AuthorizationUri+"&") {
		fmt.Printf("GOVC-SCENARIO confirmed: Location %q does not extend the endpoint's own query with '&'\n", loc)
		return
	}
	fmt.Println("GOVC-SCENARIO not-reproduced:", loc)
}
