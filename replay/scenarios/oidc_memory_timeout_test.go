package oidc

import (
	"context"
	"fmt"
	"testing"
	"time"
)

// Scenario for obligation memoryStore.Get*:refine:SessionStore.Get*.timeout: a session far past both
// its absolute and its idle timeout is read through the real in-memory store with a virtual clock.
func TestGovcScenarioMemoryTimeout(t *testing.T) {
	now := time.Unix(1000, 0)
	clock := &Clock{NowFn: func() time.Time { return now }}
	store := NewMemoryStore(clock, 10*time.Second, 5*time.Second)
	ctx := context.Background()
	_ = store.SetTokenResponse(ctx, "sid", &TokenResponse{IDToken: "x"})
	_ = store.SetAuthorizationState(ctx, "sid", &AuthorizationState{State: "s", Nonce: "n", RequestedURL: "u", CodeVerifier: "v"})
	now = now.Add(24 * time.Hour)
	tr, _ := store.GetTokenResponse(ctx, "sid")
	as, _ := store.GetAuthorizationState(ctx, "sid")
	if tr != nil || as != nil {
		fmt.Println("GOVC-SCENARIO confirmed: absolute timeout 10s, idle timeout 5s, clock advanced by 24h: the store still returns the session", tr, as)
		return
	}
	fmt.Println("GOVC-SCENARIO not-reproduced: session dropped")
}
