package authz

// govc:race

import (
	"fmt"
	"net/http"
	"net/http/httptest"
	"sync"
	"testing"

	oidcv1 "github.com/istio-ecosystem/authservice/config/gen/go/v1/oidc"
)

// Scenario for obligation authz.loadWellKnownConfig:guard:…OIDCConfig.*.frozen-write: a handler is built
// per check (server.Check -> NewOIDCHandler -> loadWellKnownConfig) and every build stores the
// discovered endpoints into the ONE OIDCConfig message shared by all checks. Two goroutines build
// handlers' configuration for the same filter at once, as two concurrent checks do; run under the
// race detector.
func TestGovcScenarioDiscoveryConfigRace(t *testing.T) {
	srv := httptest.NewServer(http.HandlerFunc(func(w http.ResponseWriter, r *http.Request) {
		fmt.Fprint(w, `{"issuer":"x","authorization_endpoint":"http://idp/auth","token_endpoint":"http://idp/token","jwks_uri":"http://idp/jwks","end_session_endpoint":"http://idp/logout"}`)
	}))
	defer srv.Close()
	cfg := &oidcv1.OIDCConfig{ConfigurationUri: srv.URL + "/.well-known/openid-configuration"}
	// warm the discovery cache so that only the configuration message is shared between the two goroutines
	if err := loadWellKnownConfig(srv.Client(), cfg); err != nil {
		t.Fatal(err)
	}
	var wg sync.WaitGroup
	for i := 0; i < 2; i++ {
		wg.Add(1)
		go func() {
			defer wg.Done()
			for j := 0; j < 200; j++ {
				_ = loadWellKnownConfig(srv.Client(), cfg)
				_ = cfg.GetTokenUri()
			}
		}()
	}
	wg.Wait()
	fmt.Println("GOVC-SCENARIO not-reproduced: no race reported (only meaningful if the race detector stayed silent)")
}
