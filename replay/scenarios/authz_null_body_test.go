package authz

import (
	"fmt"
	"net/http"
	"net/http/httptest"
	"net/url"
	"testing"

	"github.com/tetratelabs/telemetry"
	"google.golang.org/grpc/codes"
)

// Scenario for obligation performIDPRequest:post:ok_nonnil: the token endpoint answers "null".
func TestGovcScenarioNullBody(t *testing.T) {
	srv := httptest.NewServer(http.HandlerFunc(func(w http.ResponseWriter, _ *http.Request) {
		w.WriteHeader(http.StatusOK)
		_, _ = w.Write([]byte("null"))
	}))
	defer srv.Close()
	res, code := performIDPRequest(telemetry.NoopLogger(), srv.Client(), srv.URL, url.Values{"grant_type": []string{"x"}}, http.Header{})
	if code == codes.OK && res == nil {
		fmt.Println("GOVC-SCENARIO confirmed: performIDPRequest returned (nil, OK); callers dereference the result")
		return
	}
	fmt.Println("GOVC-SCENARIO not-reproduced:", res, code)
}
