package internal

import (
	"fmt"
	"os"
	"path/filepath"
	"testing"
)

// Scenario for obligation mergeAndValidateOIDCConfigs:pre@call:applyOIDCDefaults.config_nonnil:
// a configuration file with a filter that has no type at all.
func TestGovcScenarioUntypedFilter(t *testing.T) {
	file := filepath.Join(t.TempDir(), "config.json")
	_ = os.WriteFile(file, []byte(`{"listen_address":"0.0.0.0","listen_port":8080,"chains":[{"name":"c","filters":[{}]}]}`), 0o600)
	defer func() {
		if r := recover(); r != nil {
			fmt.Println("GOVC-SCENARIO confirmed: loading the configuration panicked:", r)
		}
	}()
	err := (&LocalConfigFile{path: file}).Validate()
	fmt.Println("GOVC-SCENARIO not-reproduced: Validate returned", err)
}
