package oidc

import (
	"context"
	"fmt"
	"testing"

	configv1 "github.com/istio-ecosystem/authservice/config/gen/go/v1"
	oidcv1 "github.com/istio-ecosystem/authservice/config/gen/go/v1/oidc"
)

// Scenario for the obligations of sessionStoreFactory.PreRun (C18, C10): two OIDC filters with
// different timeouts and no Redis. The real factory is run; both filters get the same store object
// (constructed with the first filter's timeouts), so a session written through one filter is
// readable through the other.
func TestGovcScenarioCrossFilterStore(t *testing.T) {
	a := &oidcv1.OIDCConfig{ClientId: "a", AbsoluteSessionTimeout: 10, IdleSessionTimeout: 5}
	b := &oidcv1.OIDCConfig{ClientId: "b", AbsoluteSessionTimeout: 1000, IdleSessionTimeout: 500}
	cfg := &configv1.Config{Chains: []*configv1.FilterChain{
		{Name: "a", Filters: []*configv1.Filter{{Type: &configv1.Filter_Oidc{Oidc: a}}}},
		{Name: "b", Filters: []*configv1.Filter{{Type: &configv1.Filter_Oidc{Oidc: b}}}},
	}}
	f := NewSessionStoreFactory(cfg)
	if err := f.PreRun(); err != nil {
		fmt.Println("GOVC-SCENARIO not-reproduced: PreRun failed", err)
		return
	}
	sa, sb := f.Get(a), f.Get(b)
	ctx := context.Background()
	_ = sa.SetTokenResponse(ctx, "sid-of-a", &TokenResponse{IDToken: "token-for-client-a"})
	tr, _ := sb.GetTokenResponse(ctx, "sid-of-a")
	ms, _ := sb.(*memoryStore)
	if sa == sb && tr != nil {
		fmt.Printf("GOVC-SCENARIO confirmed: filters a and b share one store (%p); b reads a's session %q; b's store has timeouts abs=%v idle=%v although b configures 1000s/500s\n", sa, tr.IDToken, ms.absoluteSessionTimeout, ms.idleSessionTimeout)
		return
	}
	fmt.Println("GOVC-SCENARIO not-reproduced: stores are distinct")
}
