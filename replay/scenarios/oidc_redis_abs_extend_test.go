package oidc

import (
	"context"
	"fmt"
	"testing"
	"time"

	"github.com/alicebob/miniredis/v2"
	"github.com/redis/go-redis/v9"
)

// Scenario for obligation redisStore.SetTokenResponse / SetAuthorizationState :refine:repinv.dbwf
// (the key's expiry instant is no later than creation + absolute timeout): a session is written again
// (as after a token refresh) inside its absolute lifetime, then read after creation + absolute timeout.
// Real Redis store against a miniredis server with a virtual clock on both sides.
func TestGovcScenarioRedisAbsoluteExtended(t *testing.T) {
	mr := miniredis.RunT(t)
	now := time.Unix(1700000000, 0)
	mr.SetTime(now)
	clock := &Clock{NowFn: func() time.Time { return now }}
	client := redis.NewClient(&redis.Options{Addr: mr.Addr()})
	store, err := NewRedisStore(clock, client, 60*time.Second, 0)
	if err != nil {
		t.Fatal(err)
	}
	ctx := context.Background()
	advance := func(d time.Duration) {
		now = now.Add(d)
		mr.SetTime(now)
		mr.FastForward(d)
	}
	// an unsigned but well-formed JWT: the store only parses it
	tok := &TokenResponse{IDToken: "eyJhbGciOiJub25lIn0.eyJzdWIiOiJ1In0.", AccessToken: "a"}
	if err := store.SetTokenResponse(ctx, "sid", tok); err != nil { // creation at t0
		t.Fatal(err)
	}
	advance(50 * time.Second)
	if err := store.SetTokenResponse(ctx, "sid", tok); err != nil { // activity (e.g. a token refresh) at t0+50s
		t.Fatal(err)
	}
	advance(40 * time.Second) // t0+90s: 30 s past creation + absolute timeout
	got, err := store.GetTokenResponse(ctx, "sid")
	if got != nil {
		fmt.Println("GOVC-SCENARIO confirmed: absolute timeout 60s, session created at t0, written again at t0+50s, still honoured at t0+90s", err)
		return
	}
	fmt.Println("GOVC-SCENARIO not-reproduced: session dropped", err)
}
