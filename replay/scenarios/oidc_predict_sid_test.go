package oidc

import (
	"fmt"
	mrand "math/rand"
	"testing"
	"time"
)

// Scenario for the obligations of randomGenerator.generate (C06): an attacker who sees the state
// of a login (it travels in the Location URL) and knows the request time to within a window
// enumerates time-derived seeds, re-plays the documented draw order session id -> nonce -> state
// with math/rand and, on matching the state, has computed the session cookie.
func TestGovcScenarioPredictSessionID(t *testing.T) {
	const charset = "abcdefghijklmnopqrstuvwxyzABCDEFGHIJKLMNOPQRSTUVWXYZ0123456789"
	draw := func(r *mrand.Rand, n int) string {
		b := make([]byte, n)
		for i := range b {
			b[i] = charset[r.Intn(len(charset))]
		}
		return string(b)
	}
	before := time.Now().UnixNano()
	g := NewRandomGenerator()
	after := time.Now().UnixNano()
	sid, nonce, state := g.GenerateSessionID(), g.GenerateNonce(), g.GenerateState()
	_ = nonce
	tried := 0
	for seed := before - 1000; seed <= after+1000 && tried < 50_000_000; seed++ {
		tried++
		r := mrand.New(mrand.NewSource(seed))
		candSid := draw(r, 64)
		_ = draw(r, 32)
		if draw(r, 32) == state {
			if candSid == sid {
				fmt.Printf("GOVC-SCENARIO confirmed: session cookie computed from the public state value and the request time after %d candidate seeds\n", tried)
				return
			}
		}
	}
	fmt.Println("GOVC-SCENARIO not-reproduced: no time-derived seed reproduces the state; tried", tried)
}
